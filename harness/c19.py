"""C19 - solver configuration is scoped, restored and captured correctly."""
from __future__ import annotations

import contextlib
import contextvars
import dataclasses
import io
import itertools
import re
import threading

import lib
from lib import PropertyCheck, clist, cz

SETTINGS = ['solver', 'throw', 'options', 'callback']
COQ_SET = {'solver': 'SSolver', 'throw': 'SThrow', 'options': 'SOptions', 'callback': 'SCallback'}
# the ConfigState field behind each abstract setting of the model (Model/Config.v: cfg).  The real fields
# are enumerated by introspection (check_fields): a field without an entry here - one whose effect on
# `op.I(y)` this harness does not know how to observe - fails the check closed.
FIELD = {'solver': 'solver', 'throw': 'solver_throw', 'options': 'solver_options', 'callback': 'solver_callback'}
VALUES = {'solver': [0, 1, 2, 3], 'throw': [0, 1], 'options': [0, 1, 2, 3], 'callback': [0, 1, 2, 3]}

# What a user can do with a lazy inverse AFTER creating it.  ['D', i, how] derives a new object from object i
# (objects are numbered in creation order: the inverses made by ['N'] and the derived objects); ['A', i, route]
# applies object i through a route.  Model: Derive (DReduce | DRoundTrip | DInvInv) i, ApplyVia route i.
HOWS = ['reduce', 'compose_l', 'compose_r', 'sandwich', 'scale', 'sum', 'blockdiag', 'blockcol', 'blockrow', 'flatten', 'inv_inv']
HOW_DOC = {
    'reduce': 'X.reduce()', 'compose_l': '(L @ X).reduce()', 'compose_r': '(X @ R).reduce()', 'sandwich': '(L @ X @ R).reduce()',
    'scale': '(2 * X).reduce()', 'sum': '(X + Zero).reduce()', 'blockdiag': 'BlockDiagonalOperator([X, L]).reduce()',
    'blockcol': 'BlockColumnOperator([X, L]).reduce()', 'blockrow': 'BlockRowOperator([X, Zero]).reduce()',
    'flatten': 'jax.tree.unflatten(*reversed(jax.tree.flatten(X)))', 'inv_inv': '(the lazy inverse held by X).I.I',
}  # fmt: skip
COQ_HOW = {h: 'DReduce' for h in HOWS} | {'flatten': 'DRoundTrip', 'inv_inv': 'DInvInv'}
ROUTES = ['eager', 'jit', 'jitarg', 'fjitarg', 'matrix']
ROUTE_DOC = {
    'eager': 'X(v)', 'jit': 'jax.jit(lambda v: X(v))(v)', 'jitarg': 'F(X, v) with ONE F = jax.jit(lambda op, v: op(v)) per history',
    'fjitarg': 'G(X, v) with ONE G = equinox.filter_jit(lambda op, v: op(v)) per history',
    'matrix': '(X @ column(v)).as_matrix()[:, 0] (generic as_matrix: fori_loop over mv)',
}
COQ_ROUTE = {'eager': 'REager', 'jit': 'RJitClosure', 'jitarg': '(RJitArg 0)', 'fjitarg': '(RJitArg 1)', 'matrix': 'RMatrix'}

# The probed system (exact small integers; float64): A is SPD 16x16 with eigenvalues in [2.4, 9.5]; Z is A with
# its last row and column zeroed (singular) and B has a component in the null space of Z, so NO solver can
# solve Z x = B (the residual keeps that component): the solve fails whatever the solver and the options.
N = 16
B = [3, 2, -3, -1, -2, -4, -2, 2, 2, 1, -1, 0, 0, -4, -4, -3]
X0 = [0, 1, 0, -1, 0, 1, 0, -1, 0, 0, -1, 0, -1, 1, 1, 0]
MARGIN = 0.1  # every stopping decision of the reference solves is at least a factor 10**MARGIN from its threshold
VEC_TOL = 1e-9  # relative (max norm) tolerance when recognising a returned vector among the reference vectors

LEGEND = (
    "identifiers: solver 0 = the default CG(rtol=atol=1e-6, max_steps=500), 1 = CG(1e-12, 1e-12, max_steps=2), "
    "2 = CG(1e-12, 1e-12, max_steps=3), 3 = CG(1/64, 1/64, max_steps=500); solver_throw 0/1 = False/True; "
    "solver_options 0 = {}, 1 = {preconditioner: Jacobi}, 2 = {preconditioner: P2} (same key as 1, another value), "
    "3 = {preconditioner: P2, y0: X0}; "
    "solver_callback 0 = default_solver_callback, n = recording callback n; 'main' = effect of A.I(B) (16x16 SPD, see "
    "harness/c19.py matrices()), 'sing' = effect of Z.I(B) (singular: every solve fails), as ['raised'] or "
    "['ret', solver and options whose reference solve gives the returned vector and step count, callback that ran]; "
    "events: ['E', kw] with Config(**kw): / ['B', kw] p = Config(**kw) (the object is only BUILT, and kept as the next preset: "
    "p0, p1, ... in build order) / ['P', i] with p_i: (a Config object built earlier is ENTERED) / ['X'] end of block / ['XE'] block left by an exception / ['N'] X = A.I (and Z.I) / "
    "['R'] Config.instance() / ['D', i, how] derive an object from object i (L, R: 16x16 cyclic-shift dense operators, Zero: zero "
    "dense operator; the input/output of the derived expression are mapped so that the held inverse still sees exactly B): "
    + '; '.join(f'{k} = {v}' for k, v in HOW_DOC.items())
    + " / ['A', i, route] apply object i: "
    + '; '.join(f'{k} = {v}' for k, v in ROUTE_DOC.items())
)

_impl = {}


def matrices():
    import numpy as np

    A = np.zeros((N, N))
    for i in range(N):
        A[i, i] = 4 + (i * 7 % 5)
        if i + 1 < N:
            A[i, i + 1] = A[i + 1, i] = -1
        if i + 3 < N:
            A[i, i + 3] = A[i + 3, i] = 1
    Z = A.copy()
    Z[-1, :] = 0
    Z[:, -1] = 0
    P1 = np.diag(1 / np.diag(A))  # Jacobi
    P2 = P1.copy()
    for i in range(N - 1):
        P2[i, i + 1] = P2[i + 1, i] = 1 / 64
    return A, Z, P1, P2, np.array(B, float), np.array(X0, float)


def reference_pcg(A, b, rtol, atol, max_steps, P=None, x0=None):
    """Textbook preconditioned conjugate gradient in NumPy with the termination rule documented by lineax.CG
    (both |r| <= atol + rtol |b| and |last update| <= atol + rtol |x| elementwise; success iff it stops
    before max_steps).  Returns (x, steps, successful, distance of the closest stopping decision from 1 in log10)."""
    import numpy as np

    n = len(b)
    x = np.zeros(n) if x0 is None else np.array(x0, float)
    r = b - A @ x
    z = r if P is None else P @ r
    p = z.copy()
    gamma = z @ r
    diff = np.full(n, np.inf)
    step = 0
    bscale = atol + rtol * np.abs(b)
    margin = float('inf')
    while True:
        yscale = atol + rtol * np.abs(x)
        with np.errstate(all='ignore'):
            dec = max(np.max(np.abs(r / bscale)), np.max(np.abs(diff / yscale)))
        if np.isfinite(dec) and dec > 0:
            margin = min(margin, abs(float(np.log10(dec))))
        if not (gamma > 0 and step < max_steps and dec > 1):
            break
        Ap = A @ p
        alpha = gamma / (Ap @ p)
        diff = alpha * p
        x = x + diff
        step += 1
        r = r - alpha * Ap
        z = r if P is None else P @ r
        g2 = z @ r
        p = z + (g2 / gamma) * p
        gamma = g2
    return x, step, step != max_steps, margin


def check_fields(fc):
    """The configuration fields, by introspection; fail closed on one this harness cannot observe."""
    names = [f.name for f in dataclasses.fields(fc.ConfigState)]
    unknown = sorted(set(names) - set(FIELD.values()))
    missing = sorted(set(FIELD.values()) - set(names))
    if unknown or missing:
        raise lib.Tie(
            f'ConfigState fields {names}: the harness does not know how to observe the effect of {unknown} on op.I(y)'
            f' (fields of the model that no longer exist: {missing}); model cfg and harness FIELD must be extended'
        )
    return names


def impl():
    """Real objects for the abstract setting identifiers, the probed operators and the reference outcomes."""
    if _impl:
        return _impl
    import jax

    jax.config.update('jax_enable_x64', True)
    import jax.numpy as jnp
    import lineax as lx
    import numpy as np
    from furax._base import config as fc
    from furax._base.dense import DenseBlockDiagonalOperator

    fields = check_fields(fc)
    default = fc.ConfigState()
    A, Z, P1, P2, b, x0 = matrices()
    struct = jax.ShapeDtypeStruct((N,), jnp.float64)

    def dense(M):
        return DenseBlockDiagonalOperator(jnp.asarray(M, dtype=jnp.float64), struct, 'ij,j->i')

    # solver 0 is THE default object; 1, 2 stop at max_steps (the solve of A fails), 3 stops early by tolerance
    solvers = {
        0: default.solver,
        1: lx.CG(rtol=1e-12, atol=1e-12, max_steps=2),
        2: lx.CG(rtol=1e-12, atol=1e-12, max_steps=3),
        3: lx.CG(rtol=1 / 64, atol=1 / 64, max_steps=500),
    }
    y0 = jnp.asarray(x0, dtype=jnp.float64)
    # 1 and 2 have the SAME keys and different values (a comparison of the options by their keys conflates them);
    # 2 and 3 share the preconditioner OBJECT and differ by a key
    precond2 = dense(P2)
    options = {0: {}, 1: {'preconditioner': dense(P1)}, 2: {'preconditioner': precond2}, 3: {'preconditioner': precond2, 'y0': y0}}
    ref_opts = {0: {}, 1: {'P': P1}, 2: {'P': P2}, 3: {'P': P2, 'x0': x0}}
    callbacks = {0: default.solver_callback}
    for n in (1, 2, 3):

        def cb(solution, n=n):
            _impl['cb_log'].append([n, int(solution.stats['num_steps'])])

        callbacks[n] = cb
    # independent reference outcome of A x = B for every (solver, options)
    ref = {}
    for s, sv in solvers.items():
        for o, kw in ref_opts.items():
            x, steps, ok, margin = reference_pcg(A, b, float(sv.rtol), float(sv.atol), int(sv.max_steps), **kw)
            if margin < MARGIN:
                raise RuntimeError(f'harness self-check: reference solve (solver {s}, options {o}) decides within 10**{margin:.3f} of a threshold')
            ref[s, o] = {'x': x, 'steps': steps, 'ok': bool(ok)}
    keys = sorted(ref)
    for i, k1 in enumerate(keys):
        for k2 in keys[i + 1 :]:
            d = np.max(np.abs(ref[k1]['x'] - ref[k2]['x'])) / np.max(np.abs(ref[k1]['x']))
            if d < 20 * VEC_TOL:
                raise RuntimeError(f'harness self-check: reference vectors of {k1} and {k2} are not separated ({d:.2e})')
    # auxiliary operands of the expressions a lazy inverse gets embedded in: cyclic shifts (exact permutations whose
    # transposes undo them, and which no algebraic rule rewrites) and the zero operator
    Lm = np.roll(np.eye(N), 1, axis=1)
    Rm = np.roll(np.eye(N), 3, axis=1)
    _impl.update(
        options_ref={n: dict(d) for n, d in options.items()},  # independent (shallow) record: never handed to furax
        fc=fc, fields=fields, solvers=solvers, callbacks=callbacks, options=options, cb_log=[], default=default,
        opA=dense(A), opZ=dense(Z), y=jnp.asarray(b, dtype=jnp.float64), ref=ref,
        fails=sorted(k for k in ref if not ref[k]['ok']),
        L=dense(Lm), R=dense(Rm), Zero=dense(np.zeros((N, N))), Lm=jnp.asarray(Lm), Rm=jnp.asarray(Rm), struct=struct,
    )
    return _impl


def to_kwargs(kw: dict) -> dict:
    im = impl()
    out = {}
    for k, v in kw.items():
        if k == 'solver':
            out['solver'] = im['solvers'][v]
        elif k == 'throw':
            out['solver_throw'] = bool(v)
        elif k == 'options':
            # a dict of its own for every Config(...) call (as a user writes `solver_options={...}` inline): a write
            # into a configuration's dict can then be told from the independent record im['options_ref']
            out['solver_options'] = dict(im['options_ref'][v])
        elif k == 'callback':
            out['solver_callback'] = im['callbacks'][v]
        else:
            raise ValueError(k)
    return out


def cfg_ids(state) -> list[int]:
    """The identifiers of the settings held by a ConfigState (read field by field)."""
    im = impl()
    solver = next((n for n, s in im['solvers'].items() if s is state.solver), -1)
    if solver == -1:
        solver = next((n for n, s in im['solvers'].items() if s == state.solver), -1)
    callback = next((n for n, c in im['callbacks'].items() if c is state.solver_callback), -1)
    options = -1
    if isinstance(state.solver_options, dict):
        for n, d in im['options_ref'].items():
            if set(d) == set(state.solver_options) and all(state.solver_options[k] is d[k] for k in d):
                options = n
    throw = int(state.solver_throw) if isinstance(state.solver_throw, bool) else -1
    return [solver, throw, options, callback]


# ---- the effect of a configuration on op.I(y) ------------------------------------------------------


def probe(call):
    """Run call() - an application of an object holding a lazy inverse to B, mapped back to the vector the
    inverse returned: (exception type or None, returned vector or None, callbacks that ran)."""
    import jax

    im = impl()
    log = im['cb_log']
    del log[:]
    buf = io.StringIO()
    raised, x = None, None
    with contextlib.redirect_stdout(buf), contextlib.redirect_stderr(io.StringIO()):
        try:
            x = call()
            jax.block_until_ready(x)
        except RuntimeError as e:  # lineax reports a failed solve (throw=True) as a runtime error
            raised = type(e).__name__
        except Exception as e:  # anything else is not "the solve failed": reported as an odd effect
            raised = f'unexpected {type(e).__name__}: {str(e)[:200]}'
        jax.effects_barrier()
    cbs = [list(r) for r in log]
    text = buf.getvalue()
    for m in re.finditer(r'(Converged|Did not converge) in (\d+) iterations', text):  # default_solver_callback
        cbs.append([0, int(m.group(2))])
    return raised, x, cbs


def classify(x):
    """(solver, options) whose reference solve of A x = B returns this vector, or None."""
    import numpy as np

    x = np.asarray(x, dtype=float)
    if x.shape != (N,) or not np.all(np.isfinite(x)):
        return None
    for k, r in sorted(impl()['ref'].items()):
        if np.max(np.abs(x - r['x'])) <= VEC_TOL * np.max(np.abs(r['x'])):
            return k
    return None


def observe_effect(calls, jit=False):
    """Abstract effect (Model.Config.effect) of applying the objects holding the inverses of A and of Z created
    together; calls = [application on A, application on Z] (thunks); jit: the application is compiled."""
    import numpy as np

    im = impl()
    out = {}
    raised, x, cbs = probe(calls[0])
    if raised and raised.startswith('unexpected'):
        out['main'] = ['odd', {'raised': raised, 'callbacks': cbs}]
    elif raised:
        # eagerly the callback line is not reached; under jit the order of error and callback is unspecified
        out['main'] = ['raised'] if (jit or not cbs) else ['odd', {'raised': raised, 'callbacks': cbs}]
    else:
        k = classify(x)
        if x is not None and np.shape(x) == (N,) and k is not None and len(cbs) == 1 and cbs[0][1] == im['ref'][k]['steps']:
            out['main'] = ['ret', k[0], k[1], cbs[0][0]]
        else:
            out['main'] = ['odd', {'vector_of_solver_options': list(k) if k else None, 'callbacks': cbs,
                                   'x[:3]': [float(v) for v in np.asarray(x, dtype=float).ravel()[:3]]}]
    raised, x, cbs = probe(calls[1])
    if raised and raised.startswith('unexpected'):
        out['sing'] = ['odd', {'raised': raised, 'callbacks': cbs}]
    elif raised:
        out['sing'] = ['raised'] if (jit or not cbs) else ['odd', {'raised': raised, 'callbacks': cbs}]
    elif len(cbs) == 1:
        out['sing'] = ['ret', cbs[0][0]]
    else:
        out['sing'] = ['odd', {'callbacks': cbs}]
    return out


def expected_effect(ids):
    """What lineax does with the configuration `ids` (independent reference): the solve of A fails for the
    (solver, options) pairs whose reference solve stops at max_steps, the solve of Z always fails; a failed
    solve raises iff solver_throw; otherwise the vector/statistics of (solver, options) and the callback."""
    s, t, o, c = ids
    fails = not impl()['ref'][s, o]['ok']
    return {
        'main': ['raised'] if (fails and t) else ['ret', s, o, c],
        'sing': ['raised'] if t else ['ret', c],
    }


class Boom(Exception):
    pass


def run_eq(case):
    """Two configurations made with genuine `with Config(...)` blocks (every field named), and the lazy inverses
    created in them: equality of the ConfigState objects and of the tree structures of the inverses."""
    import jax

    im = impl()
    states, invs = [], []
    for ids in (case['a'], case['b']):
        with im['fc'].Config(**to_kwargs(dict(zip(SETTINGS, ids)))) as st:
            invs.append(im['opA'].I)
        states.append(st)
    out = {'ids': [cfg_ids(st) for st in states]}
    out['eq'] = bool(states[0] == states[1])
    out['ne'] = bool(states[0] != states[1])
    hs = []
    for st in states:
        try:
            hs.append(hash(st))
        except TypeError:
            hs.append(None)
    out['hash'] = 'unhashable' if None in hs else ('equal' if hs[0] == hs[1] else 'different')
    out['inverse_config_eq'] = bool(invs[0].config == invs[1].config)
    out['inverse_treedef_eq'] = bool(jax.tree.structure(invs[0]) == jax.tree.structure(invs[1]))
    return out


def make_inverse(fx=False):
    """Genuine lazy inverses (iterative solver) obtained with `op.I`: of A and, for effect cases, of Z."""
    from furax._base.core import InverseOperator

    im = impl()
    invs = [im['opA'].I] + ([im['opZ'].I] if fx else [])
    for inv in invs:
        if type(inv) is not InverseOperator:
            raise RuntimeError(f'op.I is a {type(inv).__name__}, not a lazy InverseOperator')
    return invs


class Obj:
    """An object holding a lazy inverse: the same expression built on A.I and (effect cases) on Z.I, with the maps
    that make the held inverse see exactly the probe vector and recover the vector it returned."""

    def __init__(self, ops, inp=None, out=None, in_vec=True, out_vec=True, chain=()):
        self.ops = ops
        self.inp = inp or (lambda v: v)  # probe vector -> input pytree of the expression
        self.out = out or (lambda r: r)  # output pytree of the expression -> vector returned by the held inverse
        self.in_vec = in_vec  # the expression takes / returns a single N-vector
        self.out_vec = out_vec
        self.chain = tuple(chain)


def held_inverses(expr):
    """The lazy InverseOperator objects held by an expression."""
    import jax
    from furax._base.core import InverseOperator

    return [x for x in jax.tree.leaves(expr, is_leaf=lambda x: type(x) is InverseOperator) if type(x) is InverseOperator]


def held_ids(expr):
    """Identifiers of the configuration stored by THE lazy inverse held by an expression (a string if it holds
    none or several: an odd observation, reported by the oracle)."""
    invs = held_inverses(expr)
    if len(invs) != 1:
        return f'the {type(expr).__name__} holds {len(invs)} lazy inverses instead of 1'
    return cfg_ids(invs[0].config)


def derive(how, X: Obj) -> Obj:
    """Derive a new object from X under the configuration that is active NOW (see HOW_DOC)."""
    import jax
    from furax._base.blocks import BlockColumnOperator, BlockDiagonalOperator, BlockRowOperator

    im = impl()
    L, R, Zero, Lm, Rm = im['L'], im['R'], im['Zero'], im['Lm'], im['Rm']
    inp, out = X.inp, X.out
    need = {'compose_l': (False, True), 'compose_r': (True, False), 'sandwich': (True, True), 'sum': (True, True),
            'blockcol': (True, False), 'blockrow': (False, True)}.get(how, (False, False))  # fmt: skip
    if (need[0] and not X.in_vec) or (need[1] and not X.out_vec):
        how = 'blockdiag'  # the only container that accepts any structure
    chain = X.chain + (how,)
    if how == 'reduce':
        return Obj([E.reduce() for E in X.ops], inp, out, X.in_vec, X.out_vec, chain)
    if how == 'flatten':
        ops = []
        for E in X.ops:
            leaves, treedef = jax.tree.flatten(E)
            ops.append(jax.tree.unflatten(treedef, leaves))
        return Obj(ops, inp, out, X.in_vec, X.out_vec, chain)
    if how == 'inv_inv':
        ops = []
        for E in X.ops:
            invs = held_inverses(E)
            if len(invs) != 1:
                raise RuntimeError(f'the {type(E).__name__} holds {len(invs)} lazy inverses instead of 1')
            inv = invs[0]
            if inv.I is not inv.operator:
                raise RuntimeError('inverse.I is not the operand of the lazy inverse')
            ops.append(inv.I.I)
        return Obj(ops, chain=chain)
    if how == 'compose_l':
        return Obj([(L @ E).reduce() for E in X.ops], inp, lambda r: out(Lm.T @ r), X.in_vec, True, chain)
    if how == 'compose_r':
        return Obj([(E @ R).reduce() for E in X.ops], lambda v: Rm.T @ inp(v), out, True, X.out_vec, chain)
    if how == 'sandwich':
        return Obj([(L @ E @ R).reduce() for E in X.ops], lambda v: Rm.T @ inp(v), lambda r: out(Lm.T @ r), True, True, chain)
    if how == 'scale':
        return Obj([(2.0 * E).reduce() for E in X.ops], inp, lambda r: out(jax.tree.map(lambda a: a / 2, r)), X.in_vec, X.out_vec, chain)
    if how == 'sum':
        return Obj([(E + Zero).reduce() for E in X.ops], inp, out, True, True, chain)
    if how == 'blockdiag':
        return Obj([BlockDiagonalOperator([E, L]).reduce() for E in X.ops], lambda v: [inp(v), v], lambda r: out(r[0]), False, False, chain)
    if how == 'blockcol':
        return Obj([BlockColumnOperator([E, L]).reduce() for E in X.ops], inp, lambda r: out(r[0]), True, False, chain)
    if how == 'blockrow':
        return Obj([BlockRowOperator([E, Zero]).reduce() for E in X.ops], lambda v: [inp(v), v], out, False, True, chain)
    raise ValueError(how)


def apply_via(route, E, X: Obj, jitted):
    """The thunk applying expression E (one of X.ops) to the probe vector through a route (see ROUTE_DOC)."""
    import jax
    import jax.numpy as jnp
    from furax._base.blocks import BlockColumnOperator
    from furax._base.core import AbstractLinearOperator
    from furax._base.dense import DenseBlockDiagonalOperator

    im = impl()
    v = X.inp(im['y'])
    if route == 'eager':
        return lambda: X.out(E(v))
    if route == 'jit':
        return lambda: X.out(jax.jit(lambda w: E(w))(v))
    if route in ('jitarg', 'fjitarg'):
        return lambda: X.out(jitted(route)(E, v))
    if route == 'matrix':

        def call():
            one = jax.ShapeDtypeStruct((1,), jnp.float64)
            cols = jax.tree.map(lambda leaf: DenseBlockDiagonalOperator(leaf[:, None], one, 'ij,j->i'), v)
            col = cols if X.in_vec else BlockColumnOperator(cols)
            expr = E @ col
            if type(expr).as_matrix is not AbstractLinearOperator.as_matrix:
                raise RuntimeError(f'{type(expr).__name__}.as_matrix is not the generic as_matrix')
            m = expr.as_matrix()
            leaves, treedef = jax.tree.flatten(E.out_structure())
            parts, k = [], 0
            for leaf in leaves:
                parts.append(m[k : k + leaf.size, 0].reshape(leaf.shape))
                k += leaf.size
            return X.out(jax.tree.unflatten(treedef, parts))

        return call
    raise ValueError(route)


def event_route(e, case_jit=False):
    return e[2] if len(e) > 2 else ('jit' if case_jit else 'eager')


class Runner:
    """Executes one thread's history with genuine `with Config(...)` statements."""

    def __init__(self, events, gate=None, tid=0, log=None, fx=False, jit=False, presets=None):
        self.events = events
        self.presets = list(presets or [])  # Config objects built (['B', kw]) or handed over, entered by ['P', i]
        self.gate = gate
        self.tid = tid
        self.obs = log if log is not None else []
        self.invs = []
        self.fx = fx  # observe applications through their EFFECT (genuine solves), not only the stored field
        self.jit = jit
        self._jitted = {}

    def jitted(self, route):
        """THE jitted function of this history for a route: the objects are passed to it as arguments."""
        if route not in self._jitted:
            import equinox
            import jax

            self._jitted[route] = {'jitarg': jax.jit, 'fjitarg': equinox.filter_jit}[route](lambda op, v: op(v))
        return self._jitted[route]

    def record(self, o):
        self.obs.append((self.tid, o))

    def block(self, pos: int) -> int:
        fc = impl()['fc']
        ev = self.events
        while pos < len(ev):
            e = ev[pos]
            if e[0] in ('X', 'XE'):
                return pos
            if self.gate:
                self.gate.wait_turn(self.tid)
            if e[0] in ('E', 'P'):
                # ['E', kw]: the object is built where it is entered; ['P', i]: an object built earlier is entered
                cm = fc.Config(**to_kwargs(e[1])) if e[0] == 'E' else self.presets[e[1]]
                self.record(None)
                if self.gate:
                    # the constructor ran at its turn; entering happens right away (with statement)
                    pass
                try:
                    with cm:
                        if self.gate:
                            self.gate.done()
                        pos = self.block(pos + 1)
                        if pos >= len(ev):
                            raise RuntimeError('history is not well nested')
                        if self.gate:
                            self.gate.wait_turn(self.tid)
                        self.record(None)
                        if ev[pos][0] == 'XE':
                            raise Boom()
                except Boom:
                    pass
                if self.gate:
                    self.gate.done()
                pos += 1
                continue
            if e[0] == 'B':
                self.presets.append(fc.Config(**to_kwargs(e[1])))  # Config.__init__ only
                self.record(None)
            elif e[0] == 'N':
                self.invs.append(Obj(make_inverse(self.fx)))
                self.record(None)
            elif e[0] == 'D':
                if e[1] < len(self.invs):
                    self.invs.append(derive(e[2], self.invs[e[1]]))
                self.record(None)
            elif e[0] == 'A':
                X = self.invs[e[1]] if e[1] < len(self.invs) else None
                if X is None:
                    self.record([])
                elif not self.fx:
                    # threads / contexts: the stored configuration; the object is applied for real (eagerly) and the stored
                    # and the active configuration are re-read - an application must not write into a configuration
                    # (which other objects, blocks, threads and copied contexts may share)
                    import jax

                    before, active = held_ids(X.ops[0]), cfg_ids(fc.Config.instance())
                    if self.gate is not None:
                        try:
                            jax.block_until_ready(apply_via('eager', X.ops[0], X, None)())
                        except Exception:  # a failed solve under solver_throw
                            pass
                    after, active2 = held_ids(X.ops[0]), cfg_ids(fc.Config.instance())
                    if (after, active2) != (before, active):
                        self.record({'cfg': before, 'cfg_stored_AFTER_the_application': after,
                                     'active_configuration_changed_by_the_application': [active, active2]})  # fmt: skip
                    else:
                        self.record(before)
                else:
                    o = {'cfg': held_ids(X.ops[0])}
                    if held_ids(X.ops[1]) != o['cfg']:
                        o['cfg_of_second_inverse'] = held_ids(X.ops[1])
                    route = event_route(e, self.jit)
                    active = cfg_ids(fc.Config.instance())
                    o.update(observe_effect([apply_via(route, E, X, self.jitted) for E in X.ops], route != 'eager'))
                    # applying must leave the configurations alone (compared with the independent record of the
                    # setting objects): the one the object stores and the active one
                    if held_ids(X.ops[0]) != o['cfg']:
                        o['cfg_stored_AFTER_the_application'] = held_ids(X.ops[0])
                    if cfg_ids(fc.Config.instance()) != active:
                        o['active_configuration_changed_by_the_application'] = [active, cfg_ids(fc.Config.instance())]
                    self.record(o)
            elif e[0] == 'R':
                self.record(cfg_ids(fc.Config.instance()))
            elif e[0] == 'F':  # fork a context copy that runs another history (handed the Config objects built so far)
                self.gate.fork(self, e[1])
                self.record('fork')
            elif e[0] == 'T':  # a plain new thread (fresh context) runs another history, handed the Config objects built so far
                self.gate.hand(self, e[1])
                self.record('fork')
            else:
                raise ValueError(e)
            if self.gate:
                self.gate.done()
            pos += 1
        return pos


class Gate:
    """Forces a given global schedule on real threads (one event of the scheduled thread at a time)."""

    def __init__(self, schedule, histories, forks):
        self.schedule = schedule
        self.pos = 0
        self.cv = threading.Condition()
        self.histories = histories
        self.log = []
        self.threads = []
        self.errors = []
        self.forks = forks

    def wait_turn(self, tid):
        with self.cv:
            ok = self.cv.wait_for(
                lambda: self.pos >= len(self.schedule) or self.schedule[self.pos] == tid, timeout=20
            )
            if not ok or self.pos >= len(self.schedule):
                raise RuntimeError(f'schedule exhausted or timed out for thread {tid}')

    def done(self):
        with self.cv:
            self.pos += 1
            self.cv.notify_all()

    def start(self, tid, ctx=None, presets=None):
        r = Runner(self.histories[tid], gate=self, tid=tid, log=self.log, presets=presets)

        def target():
            try:
                end = r.block(0)
                if end != len(r.events):
                    raise RuntimeError('unbalanced history')
            except Exception as e:  # pragma: no cover
                self.errors.append(f'{type(e).__name__}: {e}')
                with self.cv:
                    self.pos = len(self.schedule)
                    self.cv.notify_all()

        th = threading.Thread(target=(lambda: ctx.run(target)) if ctx is not None else target)
        self.threads.append(th)
        th.start()

    def fork(self, runner, child):
        self.start(child, contextvars.copy_context(), list(runner.presets))

    def hand(self, runner, child):
        self.start(child, None, list(runner.presets))


def walk(events, start=None, presets0=None, trace=None):
    """Stack discipline and provenance of the objects, stated independently of the Coq model.  Yields for every
    event (index, event, active configuration after it, objects so far); an object is a dict
    cfg = the configuration it must use (the one active when the lazy inverse it holds was created),
    derived = [(how, configuration active at that derivation)] since that creation,
    replaced = the configuration of the object `.I.I` was taken from (a NEW lazy inverse), if any."""
    cur = list(start or [0, 0, 0, 0])
    stack, objs = [], []
    # Config objects kept by the history: what each holds is decided when it is BUILT (the configuration active
    # then, overridden by its keywords); entering one makes exactly that active, and the matching exit restores
    # what was active when it was ENTERED.  trace (if given) receives dict(i, preset, built_under, entered_under,
    # exit) for every block opened with ['P', k].
    presets = [list(p) for p in (presets0 or [])]
    built_under = [None] * len(presets)
    opened = []
    for i, e in enumerate(events):
        if e[0] == 'E':
            stack.append(list(cur))
            opened.append(None)
            for k, v in e[1].items():
                cur[SETTINGS.index(k)] = v
        elif e[0] == 'B':
            p = list(cur)
            for k, v in e[1].items():
                p[SETTINGS.index(k)] = v
            presets.append(p)
            built_under.append(list(cur))
        elif e[0] == 'P':
            stack.append(list(cur))
            opened.append({'i': i, 'preset': e[1], 'built_under': built_under[e[1]], 'entered_under': list(cur), 'exit': None})
            if trace is not None:
                trace.append(opened[-1])
            cur = list(presets[e[1]])
        elif e[0] in ('X', 'XE'):
            cur = stack.pop()
            o = opened.pop()
            if o is not None:
                o['exit'] = i
        elif e[0] == 'N':
            objs.append({'cfg': list(cur), 'derived': [], 'replaced': None})
        elif e[0] == 'D' and e[1] < len(objs):
            src = objs[e[1]]
            if e[2] == 'inv_inv':
                objs.append({'cfg': list(cur), 'derived': [], 'replaced': list(src['cfg'])})
            else:
                objs.append({'cfg': list(src['cfg']), 'derived': src['derived'] + [(e[2], list(cur))], 'replaced': src['replaced']})
        yield i, e, list(cur), objs


def reference(events, start=None, fx=False, presets0=None):
    """(observations, final configuration).  With fx an application is observed as the configuration of the
    object plus its expected effect on op.I(y), whatever the route of application."""
    obs, cur = [], list(start or [0, 0, 0, 0])
    for _, e, cur, objs in walk(events, start, presets0):
        if e[0] == 'A':
            if e[1] >= len(objs):
                obs.append([])
            elif fx:
                obs.append({'cfg': list(objs[e[1]]['cfg']), **expected_effect(objs[e[1]]['cfg'])})
            else:
                obs.append(list(objs[e[1]]['cfg']))
        elif e[0] == 'R':
            obs.append(list(cur))
        elif e[0] in ('F', 'T'):
            obs.append('fork')
        else:
            obs.append(None)
    return obs, cur


def state_before(events, k, start=None, presets0=None):
    """(active configuration, presets, indices of the presets whose block is open) after the first k events."""
    cur, stack, opened = list(start or [0, 0, 0, 0]), [], []
    presets = [list(p) for p in (presets0 or [])]
    for e in events[:k]:
        if e[0] in ('E', 'P'):
            stack.append(list(cur))
            opened.append(e[1] if e[0] == 'P' else None)
            if e[0] == 'E':
                for kk, v in e[1].items():
                    cur[SETTINGS.index(kk)] = v
            else:
                cur = list(presets[e[1]])
        elif e[0] == 'B':
            p = list(cur)
            for kk, v in e[1].items():
                p[SETTINGS.index(kk)] = v
            presets.append(p)
        elif e[0] in ('X', 'XE'):
            cur = stack.pop()
            opened.pop()
    return cur, presets, [o for o in opened if o is not None]


def applications(events, case_jit=False):
    """Every application of an existing object: dict(i = event index, cap = configuration the object must use,
    act = configuration active at the application, derived / replaced as in walk(), route, earlier = the
    configurations of the objects passed EARLIER to the same jitted function (routes jitarg / fjitarg))."""
    out, passed = [], {}
    for i, e, cur, objs in walk(events):
        if e[0] == 'A' and e[1] < len(objs):
            o = objs[e[1]]
            route = event_route(e, case_jit)
            a = {'i': i, 'cap': list(o['cfg']), 'act': cur, 'derived': list(o['derived']), 'replaced': o['replaced'],
                 'route': route, 'earlier': []}  # fmt: skip
            if route in ('jitarg', 'fjitarg'):
                a['earlier'] = [list(c) for c in passed.get(route, [])]
                passed.setdefault(route, []).append(list(o['cfg']))
            out.append(a)
    return out


def hybrids(captured, active):
    """Configurations that take a non-empty subset of the settings from the one active at application time."""
    diff = [j for j in range(4) if captured[j] != active[j]]
    for r in range(1, len(diff) + 1):
        for sub in itertools.combinations(diff, r):
            h = list(captured)
            for j in sub:
                h[j] = active[j]
            yield [SETTINGS[j] for j in sub], h


def one_field_swaps(cap, other):
    """(setting, configuration `cap` with that one setting taken from `other`) for the settings that differ."""
    for j, f in enumerate(SETTINGS):
        if cap[j] != other[j]:
            h = list(cap)
            h[j] = other[j]
            yield f, (cap[j], other[j]), h


def sensitivity(cases):
    """Blind-spot tables of the generators (a zero anywhere fails the check closed).  For every setting and every
    ordered pair (value the object must use, other value), the number of applications in the effect cases whose
    expected outcome would CHANGE if that one setting were taken instead from
      'application': the configuration active at application time,
      'derivation':  the configuration active when an expression holding the inverse was reduced / round-tripped,
      'jit-argument': the configuration of an object passed earlier to the same jitted function, which differs
                      from this one in that setting ONLY (what a jit cache keyed on an equality that ignores
                      the setting would run)."""
    blank = lambda: {f: {p: 0 for p in itertools.permutations(VALUES[f], 2)} for f in SETTINGS}  # noqa: E731
    tables = {'application': blank(), 'derivation': blank(), 'jit-argument': blank()}
    per_how = {h: dict.fromkeys(SETTINGS, 0) for h in HOWS if h != 'inv_inv'}
    per_route = {r: dict.fromkeys(SETTINGS, 0) for r in ROUTES}
    per_route |= {'earlier argument of ' + r: dict.fromkeys(SETTINGS, 0) for r in ('jitarg', 'fjitarg')}
    inv_inv = dict.fromkeys(SETTINGS, 0)
    for c in cases:
        if c['kind'] != 'single' or not c.get('fx'):
            continue
        for a in applications(c['events'], c.get('jit', False)):
            want = expected_effect(a['cap'])
            for f, pair, h in one_field_swaps(a['cap'], a['act']):
                if expected_effect(h) != want:
                    tables['application'][f][pair] += 1
                    per_route[a['route']][f] += 1
            for how, dcfg in a['derived']:
                for f, pair, h in one_field_swaps(a['cap'], dcfg):
                    if expected_effect(h) != want:
                        tables['derivation'][f][pair] += 1
                        per_how[how][f] += 1
            if a['replaced'] is not None and not a['derived']:
                for f, pair, h in one_field_swaps(a['cap'], a['replaced']):
                    if expected_effect(h) != want:
                        inv_inv[f] += 1
            for prev in a['earlier']:
                swaps = list(one_field_swaps(a['cap'], prev))
                if len(swaps) == 1 and expected_effect(prev) != want:
                    tables['jit-argument'][swaps[0][0]][swaps[0][1]] += 1
                    per_route['earlier argument of ' + a['route']][swaps[0][0]] += 1
    return tables, per_how, per_route, inv_inv


KWS = [
    {'throw': 1}, {'options': 2}, {'callback': 1}, {'throw': 1, 'options': 3}, {'solver': 1}, {'options': 0, 'callback': 2},
    {'solver': 2, 'throw': 0}, {'solver': 3, 'callback': 3}, {'options': 1}, {'solver': 0, 'throw': 0, 'callback': 0},
]  # fmt: skip


def nz(d):
    return {k: v for k, v in d.items() if v != 0}


def directed_histories(f, vc, va, base):
    """Setting f is vc when the inverse is created and va when it is applied, the other settings are `base`
    at both times (shapes 0-2), or the other side is the defaults (shapes 3, 4)."""
    b = nz(base)
    return [
        # created in one block, applied in a sibling block
        [['E', b], ['E', {f: vc}], ['N'], ['X'], ['E', {f: va}], ['A', 0], ['X'], ['X']],
        # created in the outer block, applied in a block nested in it
        [['E', {**b, f: vc}], ['N'], ['E', {f: va}], ['A', 0], ['X'], ['X']],
        # the creating block is left through an exception, the applying one as well
        [['E', b], ['E', {f: vc}], ['N'], ['XE'], ['E', {f: va}], ['A', 0], ['XE'], ['A', 0], ['X']],
        # created in a block, applied after every block is left (defaults active)
        [['E', {**b, f: vc}], ['N'], ['X'], ['A', 0]],
        # created under the defaults, applied inside a block
        [['N'], ['E', {**b, f: va}], ['A', 0], ['X']],
    ]


def directed_cases(rng, quick):
    """Every setting, every ordered pair of its values between creation and application, under several values
    of the other settings (always including ones under which the setting decides the outcome)."""
    cases = []
    for f in SETTINGS:
        others = [g for g in SETTINGS if g != f]
        all_bases = [dict(zip(others, vs)) for vs in itertools.product(*(VALUES[g] for g in others))]
        for vc, va in itertools.permutations(VALUES[f], 2):
            must = [dict.fromkeys(others, 0)]
            if f == 'throw':
                must.append({'solver': 1, 'options': 0, 'callback': 1})
            else:
                must.append({**dict.fromkeys(others, 0), 'throw': 1, **({'solver': 3} if f != 'solver' else {})})
            if quick:
                bases = must + rng.sample([b for b in all_bases if b not in must], 3)
            else:
                bases = must + [b for b in all_bases if b not in must]
            for n, base in enumerate(bases):
                hs = directed_histories(f, vc, va, base)
                pick = hs if (not quick or n < 2) else [hs[0], hs[1 + (n + vc + va) % 4]]
                for h in pick:
                    cases.append({'kind': 'single', 'events': h, 'fx': True, 'directed': f})
    # the same through jax.jit (the configuration is a static field of the traced inverse)
    for f in SETTINGS:
        pairs = list(itertools.permutations(VALUES[f], 2))
        for vc, va in pairs[:2] if quick else pairs:
            base = {'solver': 1, 'options': 0, 'callback': 1} if f == 'throw' else dict.fromkeys([g for g in SETTINGS if g != f], 0)
            cases.append({'kind': 'single', 'events': directed_histories(f, vc, va, base)[0], 'fx': True, 'jit': True, 'directed': f})
    return cases


def must_bases(f):
    """Values of the other settings under which setting f decides the outcome of op.I(y)."""
    others = [g for g in SETTINGS if g != f]
    must = [dict.fromkeys(others, 0)]
    if f == 'throw':
        must.append({'solver': 1, 'options': 0, 'callback': 1})
    else:
        must.append({**dict.fromkeys(others, 0), 'throw': 1, **({'solver': 3} if f != 'solver' else {})})
    return must


def deciding_base(f, v1, v2):
    """A value of the other settings under which the values v1 and v2 of setting f give different outcomes."""
    for base in reversed(must_bases(f)):
        if expected_effect([base.get(g, v1) for g in SETTINGS]) != expected_effect([base.get(g, v2) for g in SETTINGS]):
            return base
    raise RuntimeError(f'no base tells the values {v1}, {v2} of {f} apart')


def all_bases(f):
    others = [g for g in SETTINGS if g != f]
    return [dict(zip(others, vs)) for vs in itertools.product(*(VALUES[g] for g in others))]


def derive_histories(f, vc, vd, base, how, route=None):
    """The inverse is created with setting f = vc; an object is derived from it (`how`) while f = vd is active;
    the derived object is applied inside that block, in an enclosing / later block and after every block."""
    b = nz(base)
    A = (lambda i: ['A', i, route]) if route else (lambda i: ['A', i])
    D = ['D', 0, how]
    return [
        # created in one block, derived in a sibling block, applied in the enclosing block
        [['E', b], ['E', {f: vc}], ['N'], ['X'], ['E', {f: vd}], D, ['X'], A(1), ['X']],
        # created in the outer block, derived in a block nested in it, applied there and after it
        [['E', {**b, f: vc}], ['N'], ['E', {f: vd}], D, A(1), ['X'], A(1), ['X']],
        # created in a block, derived in a later block left by an exception, applied after every block is closed
        [['E', {**b, f: vc}], ['N'], ['X'], ['E', {**b, f: vd}], D, ['XE'], A(1)],
        # created in a block, derived in a nested block, applied in a later block that sets f again
        [['E', {**b, f: vc}], ['N'], ['E', {f: vd}], D, ['X'], ['X'], ['E', {f: vd}], A(1), A(0), ['X']],
        # derived twice in a row (the second time from the derived object, under the defaults)
        [['E', {**b, f: vc}], ['N'], ['X'], ['E', {**b, f: vd}], D, ['X'], ['D', 1, how], A(2), A(1)],
    ]


def jitarg_histories(f, v1, v2, base, route):
    """Two inverses of the same operator whose configurations differ in setting f ONLY go one after the other
    through the same jitted function, as arguments."""
    b = nz(base)
    A = lambda i: ['A', i, route]  # noqa: E731
    return [
        [['E', b], ['E', {f: v1}], ['N'], ['X'], ['E', {f: v2}], ['N'], ['X'], ['X'], A(0), A(1), A(0)],
        [['E', {**b, f: v1}], ['N'], ['E', {f: v2}], ['N'], A(0), A(1), ['X'], A(1), A(0), ['X']],
        [['E', {**b, f: v1}], ['N'], ['X'], ['E', {**b, f: v2}], ['N'], ['D', 1, 'flatten'], ['XE'], A(0), A(2), A(1)],
    ]


def after_creation_cases(rng, quick):
    """The blind spot closed in round 2: what happens to the captured configuration AFTER the creation."""
    cases = []
    n = 0
    # (a) every way of deriving x every setting x every ordered pair (value at creation, value at derivation)
    for f in SETTINGS:
        rest = [b for b in all_bases(f) if b not in must_bases(f)]
        for vc, vd in itertools.permutations(VALUES[f], 2):
            bases = must_bases(f) + (rng.sample(rest, 1) if quick else rng.sample(rest, 6))
            for base in bases:
                for how in HOWS:
                    hs = derive_histories(f, vc, vd, base, how)
                    n += 1
                    for h in [hs[n % len(hs)]] if quick else hs:
                        cases.append({'kind': 'single', 'events': h, 'fx': True, 'directed': 'derive-' + f})
    # (b) every way of deriving x every route of application (compiled routes are slow: one history each)
    for how in HOWS:
        for route in ROUTES[1:]:
            for rep in range(1 if quick else 4):
                f = SETTINGS[(n + rep) % 4]
                n += 1
                vc, vd = rng.sample(VALUES[f], 2)
                hs = derive_histories(f, vc, vd, deciding_base(f, vc, vd), how, route)
                cases.append({'kind': 'single', 'events': hs[n % 3], 'fx': True, 'directed': 'derive-route'})
    # (c) every setting x every ordered pair of values: two inverses differing in that setting only, passed one
    # after the other to the same jitted function
    for f in SETTINGS:
        rest = [b for b in all_bases(f) if b not in must_bases(f)]
        for k, (v1, v2) in enumerate(itertools.permutations(VALUES[f], 2)):
            routes = [['jitarg', 'fjitarg'][k % 2]] if quick else ['jitarg', 'fjitarg']
            bases = [deciding_base(f, v1, v2)] if quick else must_bases(f) + rng.sample(rest, 2)
            for route in routes:
                for base in bases:
                    hs = jitarg_histories(f, v1, v2, base, route)
                    n += 1
                    for h in [hs[n % len(hs)]] if quick else hs:
                        cases.append({'kind': 'single', 'events': h, 'fx': True, 'directed': 'jitarg-' + f})
    # (d) every route x every setting x applied under another value of the setting (no derivation)
    for route in ROUTES[1:]:
        for f in SETTINGS:
            pairs = list(itertools.permutations(VALUES[f], 2))
            for vc, va in [pairs[n % len(pairs)]] if quick else pairs:
                n += 1
                h = directed_histories(f, vc, va, deciding_base(f, vc, va))[n % 5]
                h = [[e[0], e[1], route] if e[0] == 'A' else e for e in h]
                cases.append({'kind': 'single', 'events': h, 'fx': True, 'directed': 'route-' + route})
    return cases


def eq_cases(rng, quick):
    """ConfigState equality (what the jit cache keys on): pairs of configurations that differ in exactly one
    field (every field, every unordered pair of its values, several values of the other fields), equal pairs
    built separately, random pairs."""
    cases = []
    for f in SETTINGS:
        j = SETTINGS.index(f)
        bases = must_bases(f) + rng.sample(all_bases(f), 2 if quick else 12)
        for v1, v2 in itertools.combinations(VALUES[f], 2):
            for base in bases:
                a = [base.get(g, v1) for g in SETTINGS]
                b = list(a)
                b[j] = v2
                cases.append({'kind': 'eq', 'a': a, 'b': b})
    for _ in range(40 if quick else 400):
        a = [rng.choice(VALUES[g]) for g in SETTINGS]
        cases.append({'kind': 'eq', 'a': a, 'b': list(a)})
        cases.append({'kind': 'eq', 'a': a, 'b': [rng.choice(VALUES[g]) for g in SETTINGS]})
    return cases


def enum_histories(maxlen, kws, derive=False):
    """All well-nested histories with at most maxlen events; with derive, also derivations from the latest
    object (the way of deriving rotates with the position) - only the histories that derive are kept."""
    out = []

    def go(h, depth, ninv):
        if depth == 0 and (not derive or (any(e[0] == 'D' for e in h) and h[-1][0] == 'A')):
            out.append(list(h))
        if len(h) + depth >= maxlen:
            # only closing moves can still fit
            if depth > 0 and len(h) < maxlen:
                for x in (['X'], ['XE']):
                    h.append(x)
                    go(h, depth - 1, ninv)
                    h.pop()
            return
        for kw in kws:
            h.append(['E', kw])
            go(h, depth + 1, ninv)
            h.pop()
        if depth > 0:
            for x in (['X'], ['XE']):
                h.append(x)
                go(h, depth - 1, ninv)
                h.pop()
        h.append(['R'])
        go(h, depth, ninv)
        h.pop()
        h.append(['N'])
        go(h, depth, ninv + 1)
        h.pop()
        if ninv > 0:
            h.append(['A', ninv - 1])
            go(h, depth, ninv)
            h.pop()
        if derive and ninv > 0 and sum(e[0] == 'D' for e in h) < 2:
            h.append(['D', ninv - 1, HOWS[(3 * len(h) + 5 * depth + ninv) % len(HOWS)]])
            go(h, depth, ninv + 1)
            h.pop()

    go([], 0, 0)
    return out


def random_history(rng, length, kws, derive=0.0, routes=None, presets=0.0, handed=0, usable=None, reentrant=False):
    """derive: probability of a derivation event; routes: the routes applications may take (default eager);
    presets: probability of an event on Config objects kept by the history (built: ['B', kw]; entered: ['P', i] -
    never one whose block is still open: Config keeps ONE token per object); handed: number of Config objects the
    history starts with, of which it may enter those in `usable`."""
    h, depth, ninv = [], 0, 0
    npre, opened = handed, []
    can = set(range(handed)) if usable is None else set(usable)
    while len(h) + depth < length:
        r = rng.random()
        free = sorted(can) if reentrant else sorted(can - {o for o in opened if o is not None})
        if presets and rng.random() < presets and (not free or rng.random() < 0.4):
            h.append(['B', rng.choice(kws)])
            can.add(npre)
            npre += 1
        elif presets and free and rng.random() < 1.6 * presets:
            h.append(['P', rng.choice(free)])
            opened.append(h[-1][1])
            depth += 1
        elif ninv > 0 and rng.random() < derive:
            h.append(['D', rng.randrange(ninv), rng.choice(HOWS)])
            ninv += 1
        elif r < 0.3:
            h.append(['E', rng.choice(kws)])
            opened.append(None)
            depth += 1
        elif r < 0.5 and depth > 0:
            h.append(rng.choice([['X'], ['XE']]))
            opened.pop()
            depth -= 1
        elif r < 0.7:
            h.append(['R'])
        elif r < 0.82:
            h.append(['N'])
            ninv += 1
        elif ninv > 0:
            h.append(['A', rng.randrange(ninv)] + ([rng.choice(routes)] if routes else []))
        else:
            h.append(['R'])
    while depth > 0:
        h.append(rng.choice([['X'], ['XE']]))
        depth -= 1
        if rng.random() < 0.5:
            h.append(['R'])
    return h


def enum_preset_histories(maxlen, kws, reentrant=False):
    """All well-nested histories of at most maxlen events over build(kws) / enter-preset / enter-inline(kws[0]) / exit /
    exit-by-exception / read that enter a kept Config object at least once (never one whose block is open) and read
    at least once after that."""
    out = []

    def go(h, opened, npre):
        if not opened and any(e[0] == 'P' for e in h) and h[-1][0] == 'R':
            out.append(list(h))
        room = maxlen - len(h) - len(opened)
        if room <= 0:
            if opened and len(h) < maxlen:
                for x in (['X'], ['XE']):
                    go(h + [x], opened[:-1], npre)
            return
        for kw in kws:
            go(h + [['B', kw]], opened, npre + 1)
        for i in range(npre):
            if (reentrant or i not in opened) and room >= 2:
                go(h + [['P', i]], opened + [i], npre)
        if room >= 2:
            go(h + [['E', kws[0]]], opened + [None], npre)
        if opened:
            for x in (['X'], ['XE']):
                go(h + [x], opened[:-1], npre)
        if not h or h[-1][0] != 'R':
            go(h + [['R']], opened, npre)

    go([], [], 0)
    return out


def preset_histories(f, vb, ve, own, x1, x2):
    """Config objects built under setting f = vb and entered under f = ve (own: the keywords of the object itself;
    x1, x2: how blocks are left).  Every history reads - and creates an inverse - inside the block and after it."""
    other = {k: (v + 1) % len(VALUES[k]) for k, v in own.items()} if own else {}
    return [
        # built under the defaults, entered inside a block
        [['B', own], ['E', {f: ve}], ['P', 0], ['R'], ['N'], x1, ['R'], ['N'], ['A', 0], ['A', 1], x2, ['R'], ['A', 1]],
        # built inside a block, entered after it is closed
        [['E', {f: vb}], ['B', own], x1, ['R'], ['P', 0], ['R'], ['N'], x2, ['R'], ['A', 0], ['N'], ['A', 1]],
        # built inside a block, entered inside a sibling block
        [['E', {f: vb}], ['B', own], x1, ['E', {f: ve}], ['P', 0], ['R'], x2, ['R'], ['N'], x1, ['A', 0], ['R']],
        # built inside a block and entered in the block nested in it that changes f
        [['E', {f: vb}], ['B', own], ['E', {f: ve}], ['P', 0], ['N'], ['R'], x1, ['R'], ['N'], x2, ['R'], x1, ['A', 0], ['A', 1]],
        # the same object entered at three depths, one after the other
        [['B', own], ['P', 0], ['R'], x1, ['E', {f: ve}], ['P', 0], ['R'], x2, ['R'], ['E', {f: vb, **other}], ['P', 0], ['R'], x1, ['R'],
         x2, ['R'], x1, ['R']],
        # entered inside the block of ANOTHER kept object (built under f = vb), which is entered under f = ve
        [['B', own], ['E', {f: vb}], ['B', other], x1, ['E', {f: ve}], ['P', 1], ['R'], ['P', 0], ['R'], ['N'], x2, ['R'], x1, ['R'], x2,
         ['R'], ['A', 0]],
        # an object built INSIDE the block of a kept object inherits that object's configuration
        [['E', {f: vb}], ['B', own], x1, ['E', {f: ve}], ['P', 0], ['B', other], x2, ['R'], ['P', 1], ['R'], ['N'], x1, ['R'], x2,
         ['P', 1], ['A', 0], ['R'], x1, ['R']],
    ]


def preset_cases(rng, quick, reentrant=False):
    """Config objects built at one point and entered at another: every setting x every ordered pair (value active when
    the object is built, value active when it is entered) x keywords of the object x 7 shapes x ways of leaving."""
    cases, n = [], 0
    for f in SETTINGS:
        for vb, ve in itertools.permutations(VALUES[f], 2):
            owns = [{}, {f: next(v for v in VALUES[f] if v not in (vb, ve))} if len(VALUES[f]) > 2 else {}]
            owns += [{g: rng.choice(VALUES[g][1:])} for g in SETTINGS if g != f]
            for own in owns if not quick else [owns[0], owns[1 + n % (len(owns) - 1)]]:
                n += 1
                x1, x2 = [['X'], ['XE']][n % 2], [['X'], ['XE']][(n // 2) % 2]
                hs = preset_histories(f, vb, ve, own, x1, x2)
                for h in hs if not quick else [hs[n % len(hs)], hs[(n + 3) % len(hs)]]:
                    cases.append({'kind': 'single', 'events': h, 'fx': True, 'directed': 'preset-' + f})
                if reentrant:
                    # the same object entered again while its block is open (directly, and with a block in between)
                    h = [['B', own], ['E', {f: ve}], ['P', 0], ['P', 0], ['R'], x1, ['R'], ['E', {f: vb}], ['P', 0], ['R'], ['N'], x2, ['R'],
                         x1, ['R'], x2, ['R'], x1, ['R'], ['A', 0]]  # fmt: skip
                    cases.append({'kind': 'single', 'events': h, 'fx': True, 'directed': 'preset-reentrant'})
    return cases


def preset_thread_case(rng, kws, reentrant=False):
    """Thread 0 builds Config objects (at top level and inside blocks), then starts thread / context 2 (['T', 2]: a plain
    thread; ['F', 2]: a copied context) which is handed them and enters them - only objects that thread 0 neither has
    open at that point nor enters afterwards (one token per object); thread 1 works on objects of its own."""
    while True:
        ha = random_history(rng, rng.randrange(6, 10), kws, presets=0.35, reentrant=reentrant)
        k = rng.randrange(len(ha) + 1)
        _, presets, opened = state_before(ha, k)
        busy = set() if reentrant else set(opened) | {e[1] for e in ha[k:] if e[0] == 'P'}
        usable = [i for i in range(len(presets)) if i not in busy]
        if usable:
            break
    how = rng.choice(['T', 'F'])
    ha2 = ha[:k] + [[how, 2]] + ha[k:]
    hb = random_history(rng, 5, kws, presets=0.3, reentrant=reentrant)
    while True:
        hc = random_history(rng, rng.randrange(4, 7), kws, presets=0.45, handed=len(presets), usable=usable, reentrant=reentrant)
        if any(e[0] == 'P' and e[1] < len(presets) for e in hc):
            break
    sched = [0] * len(ha2) + [1] * len(hb)
    rng.shuffle(sched)
    first_fork = [i for i, t in enumerate(sched) if t == 0][k]
    rest = sched[first_fork + 1 :] + [2] * len(hc)
    rng.shuffle(rest)
    return {'kind': 'threads', 'histories': {'0': ha2, '1': hb, '2': hc}, 'schedule': sched[: first_fork + 1] + rest, 'forks': {'2': 0}}


def preset_sensitivity(cases):
    """Blind-spot table (a zero fails the check closed): for every setting, the number of blocks opened by entering a
    kept Config object under a value of the setting OTHER than the one active when the object was built, whose exit is
    followed by a read / a creation before the next enter or exit (so that restoring the build-time configuration
    instead of the enter-time one shows)."""
    table = dict.fromkeys(SETTINGS, 0)
    for c in cases:
        if c['kind'] != 'single' or not any(e[0] == 'P' for e in c['events']):
            continue
        trace = []
        list(walk(c['events'], trace=trace))
        for t in trace:
            nxt = next((e[0] for e in c['events'][t['exit'] + 1 :] if e[0] in ('R', 'N', 'E', 'P', 'X', 'XE')), None)
            if nxt in ('R', 'N'):
                for j, f in enumerate(SETTINGS):
                    if t['built_under'] is not None and t['built_under'][j] != t['entered_under'][j]:
                        table[f] += 1
    return table


def config_method_ties(fc):
    """Shape of Config.__init__ / __enter__ / __exit__ assumed by Model.Config (Enter / Build / EnterP / Exit), fail closed:
      __init__:  [<name> = _config_var.get();] self._instance = replace(<that>, **kwargs)   - nothing else is kept
      __enter__: self.token = _config_var.set(self._instance); return self._instance         - the token of THIS set
      __exit__:  _config_var.reset(self.token)                                               - restores the enter-time value
    and Config.instance is `return _config_var.get()`; _config_var is a contextvars.ContextVar.
    Returns 'object-token' for this form (ONE token slot per Config object: the object must not be entered again while
    its block is open) or 'context-token-stack' for the form of fixes/C19-config-reentrant.diff (the tokens of the open
    blocks are kept, innermost last, in a second context variable: any Config object may be entered at any time)."""
    import ast
    import inspect
    import textwrap

    C = fc.Config
    if not isinstance(fc._config_var, contextvars.ContextVar):
        raise lib.Tie('config._config_var is not a contextvars.ContextVar: the model gives every thread / context its own binding')

    def body(fn):
        tree = ast.parse(textwrap.dedent(inspect.getsource(fn))).body[0]
        return [ast.dump(n) for n in tree.body if not (isinstance(n, ast.Expr) and isinstance(n.value, ast.Constant))]

    def stmts(src):
        return [ast.dump(n) for n in ast.parse(textwrap.dedent(src)).body]

    accepted = {
        '__init__': [
            stmts('config = _config_var.get()\nself._instance = replace(config, **kwargs)'),
            stmts('self._instance = replace(_config_var.get(), **kwargs)'),
        ],
        '__enter__': [
            stmts('self.token = _config_var.set(self._instance)\nreturn self._instance'),
            stmts('_tokens_var.set(_tokens_var.get() + (_config_var.set(self._instance),))\nreturn self._instance'),
        ],
        '__exit__': [
            stmts('_config_var.reset(self.token)'),
            stmts('*tokens, token = _tokens_var.get()\n_tokens_var.set(tuple(tokens))\n_config_var.reset(token)'),
        ],
        'instance': [stmts('return _config_var.get()')],
    }
    family = {}
    for name, forms in accepted.items():
        fn = getattr(C, name)
        fn = getattr(fn, '__func__', fn)
        if body(fn) in forms:
            family[name] = forms.index(body(fn))
        if body(fn) not in forms or (name == '__exit__' and family['__exit__'] != family.get('__enter__')):
            raise lib.Tie(
                f'Config.{name} is not of the form the model assumes ({config_method_ties.__doc__.split("fail closed:")[1].strip()}): '
                'the model makes the configuration computed at BUILD time active at ENTER time and restores at exit the value the '
                'context variable had when the block was ENTERED (token of the set done by __enter__), in the current context only'
            )
    hooks = sorted(set(vars(C)) & {'__aenter__', '__aexit__', '__call__', '__getattr__', '__setattr__', '__new__', '__del__', '__copy__', '__deepcopy__'})
    if hooks:
        raise lib.Tie(f'Config defines {hooks}: ways of entering / leaving / building a configuration block that the model does not cover')
    if family['__enter__'] == 1:
        tv = getattr(fc, '_tokens_var', None)
        if not isinstance(tv, contextvars.ContextVar) or tv is fc._config_var or tv.get() != ():
            raise lib.Tie('config._tokens_var is not a separate contextvars.ContextVar with default (): the model keeps one stack of open blocks per context')
        return 'context-token-stack'
    if reentrant_fix_recorded():
        raise lib.Tie(
            'Config.__enter__ / __exit__ keep ONE token per Config object (`self.token`) again: KNOWN_FINDINGS.txt records this as fixed '
            '(fixes/C19-config-reentrant.diff) - a Config object entered while its block is open (with p: with p: ..., or open in two '
            'threads at once) loses the outer token and the outer exit raises without restoring the configuration'
        )
    return 'object-token'


REENTRANT_KEY = 'config-object-entered-while-open'


def reentrant_fix_recorded():
    """Whether KNOWN_FINDINGS.txt records the re-entry defect as fixed: a line `fixed: property=C19 <commit> ...` that names
    fixes/C19-config-reentrant.diff (the token `C19-config-reentrant`).  From then on the one-token-per-object form is a
    regression: the re-entrant histories are generated whatever the form, and the static tie refuses that form."""
    if not lib.KNOWN.exists():
        return False
    return any(ln.strip().startswith('fixed:') and 'property=C19' in ln and 'C19-config-reentrant' in ln for ln in lib.KNOWN.read_text().splitlines())


def reentrant_config():
    """Whether the generators enter Config objects again while their block is open: when the code under test keeps its
    tokens per context (see config_method_ties), or when the fix that makes it do so is on record (then required)."""
    if reentrant_fix_recorded():
        return True
    try:
        return config_method_ties(impl()['fc']) == 'context-token-stack'
    except lib.Tie:
        return False


def coq_event(e) -> str:
    if e[0] == 'E':
        kw = clist(e[1].items(), lambda kv: f'({COQ_SET[kv[0]]}, {cz(kv[1])})')
        return f'Enter {kw}'
    if e[0] == 'B':
        kw = clist(e[1].items(), lambda kv: f'({COQ_SET[kv[0]]}, {cz(kv[1])})')
        return f'Build {kw}'
    if e[0] == 'P':
        return f'EnterP {e[1]}%nat'
    if e[0] == 'D':
        return f'Derive {COQ_HOW[e[2]]} {e[1]}%nat'
    if e[0] == 'A' and len(e) > 2:
        return f'ApplyVia {COQ_ROUTE[e[2]]} {e[1]}%nat'
    return {'X': 'Exit', 'XE': 'ExitExc', 'N': 'NewInverse', 'R': 'Read'}.get(e[0]) or f'ApplyInverse {e[1]}%nat'


def static_ties(fc):
    """Structural ties of Model.Config to what happens to the captured configuration AFTER the creation (fail closed).
    1. cfg_eqb = ConfigState.__eq__: generated by @dataclass(eq=True, frozen=True), every field compared, nothing
       hand-written; InverseOperator.config is a static field (so this equality is what the jit cache uses).
    2. Derive DReduce keeps the configuration: the lazy-inverse classes inherit `reduce` (return self).
    3. The configuration is captured at ONE site: in the furax package the active configuration is read only in
       InverseOperator.__init__, and InverseOperator is constructed only by AbstractLinearOperator.inverse."""
    import ast
    import inspect
    import pathlib
    import textwrap

    import furax
    from furax._base import core

    CS = fc.ConfigState
    params = CS.__dataclass_params__
    if not (params.eq and params.frozen):
        raise lib.Tie(f'ConfigState is declared with {params}: the model compares every field (eq=True) of an immutable record (frozen=True)')
    excluded = [f.name for f in dataclasses.fields(CS) if not f.compare]
    if excluded:
        raise lib.Tie(
            f'ConfigState fields {excluded} are excluded from comparison (compare=False): InverseOperator.config is a static pytree field, '
            'so lazy inverses created under configurations that differ in these fields only get EQUAL tree structures and the jit cache '
            'of a function taking them as arguments runs one with the configuration of the other (Model.Config.cfg_eqb compares every field)'
        )
    body = ast.parse(textwrap.dedent(inspect.getsource(CS))).body[0]
    own = [n for n in body.body if isinstance(n, ast.FunctionDef) and n.name in ('__eq__', '__ne__', '__hash__', '__lt__', '__le__')]
    for fn in own:
        # a hand-written __eq__ is accepted only in the form of fix 73c43c7: an isinstance guard returning NotImplemented,
        # then ONE return of an and-chain that mentions self.<f> and other.<f> for EVERY dataclass field (so that it is
        # still "all fields compared": arrays / operators inside the options through equinox.tree_equal)
        ok = fn.name == '__eq__'
        if ok:
            stmts = [n for n in fn.body if not (isinstance(n, ast.Expr) and isinstance(n.value, ast.Constant))]
            rets = [n for n in stmts if isinstance(n, ast.Return)]
            guards = [n for n in stmts if isinstance(n, ast.If)]
            ok = len(rets) == 1 and len(guards) <= 1 and len(stmts) == len(rets) + len(guards)
            if ok and guards:
                g = guards[0]
                ok = (not g.orelse and len(g.body) == 1 and isinstance(g.body[0], ast.Return)
                      and isinstance(g.body[0].value, ast.Name) and g.body[0].value.id == 'NotImplemented')
            if ok:
                val = rets[0].value
                ok = isinstance(val, ast.BoolOp) and isinstance(val.op, ast.And)
                if ok:
                    seen = {}
                    for node in ast.walk(val):
                        if isinstance(node, ast.Attribute) and isinstance(node.value, ast.Name) and node.value.id in ('self', 'other'):
                            seen.setdefault(node.attr, set()).add(node.value.id)
                    names = {f.name for f in dataclasses.fields(CS)}
                    ok = all(seen.get(n) == {'self', 'other'} for n in names) and not any(isinstance(n, (ast.Or, ast.Not)) for n in ast.walk(val))
        if not ok:
            raise lib.Tie(f'ConfigState defines {fn.name} by hand in a form the model does not cover: Model.Config.cfg_eqb compares EVERY field '
                          '(accepted: an isinstance guard + one `return` of an and-chain over self.<f> / other.<f> for every dataclass field)')  # fmt: skip
    fld = {f.name: f for f in dataclasses.fields(core.InverseOperator)}.get('config')
    if fld is None or not fld.metadata.get('static'):
        raise lib.Tie('InverseOperator.config is no longer a static equinox field: the model keeps the configuration in the tree structure')
    for cls in core.InverseOperator.__mro__:
        if cls is core.AbstractLinearOperator:
            break
        if 'reduce' in vars(cls):
            raise lib.Tie(f'{cls.__name__} defines reduce(): the model (Derive DReduce) keeps the SAME lazy inverse, hence its configuration, '
                          'when an expression holding it is reduced (AbstractLinearOperator.reduce: return self)')  # fmt: skip
    red = ast.parse(textwrap.dedent(inspect.getsource(core.AbstractLinearOperator.reduce))).body[0]
    stmts = [n for n in red.body if not (isinstance(n, ast.Expr) and isinstance(n.value, ast.Constant))]
    if not (len(stmts) == 1 and isinstance(stmts[0], ast.Return) and isinstance(stmts[0].value, ast.Name) and stmts[0].value.id == 'self'):
        raise lib.Tie('AbstractLinearOperator.reduce is no longer `return self`')
    reads, builds = [], []
    root = pathlib.Path(furax.__file__).parent
    for path in sorted(root.rglob('*.py')):
        if path == root / '_base' / 'config.py':
            continue
        tree = ast.parse(path.read_text())

        def visit(node, where):
            for child in ast.iter_child_nodes(node):
                w = where + [child.name] if isinstance(child, (ast.ClassDef, ast.FunctionDef, ast.AsyncFunctionDef)) else where
                if isinstance(child, ast.Attribute) and child.attr in ('instance', '_instance') and isinstance(child.value, ast.Name) and child.value.id == 'Config':
                    reads.append((str(path.relative_to(root)), '.'.join(w)))
                if isinstance(child, ast.Name) and child.id in ('_config_var',):
                    reads.append((str(path.relative_to(root)), '.'.join(w)))
                if isinstance(child, ast.Call) and isinstance(child.func, (ast.Name, ast.Attribute)):
                    name = child.func.id if isinstance(child.func, ast.Name) else child.func.attr
                    if name == 'InverseOperator':
                        builds.append((str(path.relative_to(root)), '.'.join(w)))
                visit(child, w)

        visit(tree, [])
    if set(reads) != {('_base/core.py', 'InverseOperator.__init__')}:
        raise lib.Tie(f'the active configuration is read at {sorted(set(reads))}: the model captures it in InverseOperator.__init__ only')
    if set(builds) != {('_base/core.py', 'AbstractLinearOperator.inverse')}:
        raise lib.Tie(
            f'InverseOperator is constructed at {sorted(set(builds))}: the model creates a lazy inverse (and captures the active '
            'configuration) only where the user asks for one (AbstractLinearOperator.inverse, i.e. `.I`); any other site RE-creates '
            'an inverse and re-captures whatever configuration is active there'
        )


class Check(PropertyCheck):
    id = 'C19'
    props = ['C19.v']
    static_targets = ['theories/Lemmas/ConfigL.vo']
    workers = 4  # genuine solves and XLA compilations dominate; cases() is deterministic in (tier, seed)
    coq_header = 'From Coq Require Import ZArith List.\nFrom Furax Require Import Model.Config.\nImport ListNotations.\nOpen Scope Z_scope.'
    trusted = [
        "CPython contextvars semantics as modelled: one binding per thread/context, ContextVar.set returns a token "
        "holding the previous value, reset(token) restores it, threading.Thread starts from the default, "
        "copy_context() copies",
        'setting values are abstracted to identifiers; the harness maps them to real solver/callback/options objects',
        'correspondence harness (harness/c19.py): genuine `with Config(...)` statements, real InverseOperator objects '
        '(op.I), real threads forced through each schedule',
        'effect of a configuration on op.I(y) (Model.Config.mv): the harness identifies the abstract effect of a genuine '
        'solve - exception / returned vector and iteration count recognised among the 16 (solver, options) reference '
        'solves / callback that ran - against an independent NumPy preconditioned-CG reference with the termination '
        'rule documented by lineax.CG (all stopping decisions >= 10**0.1 away from their thresholds, reference vectors '
        'separated by >= 20x the matching tolerance: self-checked on every run); the table of failing (solver, options) '
        'pairs given to the model comes from that reference; that a failed lineax solve raises iff throw is lineax semantics',
        'objects derived from a lazy inverse (Derive): the harness builds genuine furax expressions around it - composition with '
        'cyclic-shift dense operators on either side, scalar multiple, sum with the zero operator, block diagonal / column / row, '
        'pytree round trip, .I.I - under the configuration active at that point of the history and calls .reduce(); the maps between '
        'the probe vector and the input / output of the expression are exact (permutations, powers of two, + 0.0), so the held '
        'inverse solves exactly the probed systems and its effect is identified as for a direct application',
        'routes of application (ApplyVia): eager, jax.jit over a closure, argument of ONE jax.jit / equinox.filter_jit function per '
        'history, generic as_matrix of (object @ column(B)); the jit cache is modelled (Model.Config.jit_lookup) as a list of '
        'configurations per function compared with ConfigState.__eq__ - that JAX compares static pytree fields with == when it '
        'looks its cache up is JAX semantics; the model leaves the structure of the expression out of the cache key',
        'static ties (harness/c19.py static_ties, fail closed): ConfigState is @dataclass(eq, frozen) with every field compared and no '
        'hand-written comparison; InverseOperator.config is a static field; no lazy-inverse class overrides reduce(); in the furax '
        'package the active configuration is read only in InverseOperator.__init__ and InverseOperator is constructed only in '
        'AbstractLinearOperator.inverse',
        'Config objects built at one point and entered at another (Build / EnterP): the harness keeps genuine Config objects '
        '(p = Config(**kw)) and enters them later with `with p:` - at other depths, several times one after the other, inside blocks of '
        'other kept objects, in other threads / copied contexts that are handed them; Config.__enter__ keeps its token in the object '
        '(ONE slot, `self.token`), so a Config object entered again WHILE ITS BLOCK IS OPEN (with p: with p: ..., or the same object open '
        'in two threads at once) loses the outer token: the outer exit raises RuntimeError (token already used) / ValueError (token of '
        'another context) and the outer configuration is not restored - the model (a stack of frames, indifferent to the object a frame comes from: theorem '
        'reentered_preset_block) follows the code WITH fixes/C19-config-reentrant.diff (tokens kept per context, recognised by the static tie): '
        'with that form, or once KNOWN_FINDINGS.txt has a line `fixed: property=C19 <commit> ... C19-config-reentrant ...`, the generators DO '
        'enter objects whose block is open, nested and in several threads at once (and the static tie then refuses the one-token form); on '
        'the pinned form without that line they do not (stats: config_objects_entered_again_while_open); the failing histories are kept as '
        'fixes/C19-config-reentrant.replay-nested.json / .replay-threads.json (`./check C19 --replay <file>`); static tie (config_method_ties, fail closed): Config.__init__ / __enter__ / __exit__ / instance have exactly the '
        'statement shapes the model assumes (instance = replace(_config_var.get(), **kwargs); token of the set done by __enter__; '
        'reset(token) at exit), _config_var is a ContextVar',
        'applications leave configurations alone: every Config(...) call of the harness gets a solver_options dict of its own; the stored '
        'and the active configuration are re-read after every application and every object at the end of the history (applied or not) and '
        'compared, object by object, with an independent record of the setting objects (im["options_ref"], never handed to furax)',
        'not exercised: the transpose of a lazy inverse (applying TransposeOperator(InverseOperator) raises TypeError in the code under '
        'test), copy / pickle of operators, solver_options holding DIFFERENT array objects under the same key passed to one jitted '
        'function (the == of the static fields raises ValueError in the cache lookup: loud, not a wrong configuration)',
    ]

    def translate(self):
        """Static tie of Model.Config.mv to InverseOperator.mv: every ConfigState field (enumerated by
        introspection) is read from the CAPTURED configuration `self.config` and the active configuration is not
        consulted; InverseOperator.__init__ stores Config.instance()."""
        import ast
        import inspect
        import textwrap

        im = impl()
        from furax._base.core import InverseOperator

        fields = set(check_fields(im['fc']))
        tree = ast.parse(textwrap.dedent(inspect.getsource(InverseOperator.mv)))
        names = {n.id for n in ast.walk(tree) if isinstance(n, ast.Name)}
        bad = names & {'Config', 'ConfigState', '_config_var', 'contextvars'}
        if bad:
            raise lib.Tie(f'InverseOperator.mv refers to {sorted(bad)}: the model reads every setting from the captured self.config')
        read = {
            n.attr
            for n in ast.walk(tree)
            if isinstance(n, ast.Attribute) and isinstance(n.value, ast.Attribute) and n.value.attr == 'config'
            and isinstance(n.value.value, ast.Name) and n.value.value.id == 'self'
        }  # fmt: skip
        if read != fields:
            raise lib.Tie(f'InverseOperator.mv reads self.config.{sorted(read)} but ConfigState has fields {sorted(fields)}')
        init = textwrap.dedent(inspect.getsource(InverseOperator.__init__))
        if not re.search(r'self\.config\s*=\s*Config\.instance\(\)', init):
            raise lib.Tie('InverseOperator.__init__ no longer stores Config.instance() in self.config')
        static_ties(im['fc'])
        config_method_ties(im['fc'])


    def cases(self):
        quick = self.tier == 'quick'
        cases = directed_cases(self.rng, quick)
        for h in enum_histories(5 if quick else 6, KWS[:3] if quick else KWS[:4]):
            cases.append({'kind': 'single', 'events': h, 'fx': True})
        for _ in range(450 if quick else 6000):
            cases.append({'kind': 'single', 'events': random_history(self.rng, self.rng.randrange(6, 16), KWS), 'fx': True})
        # threads: all interleavings of two short histories, plus random schedules with forks
        pool = [h for h in enum_histories(4, KWS[:2]) if any(e[0] == 'E' for e in h) and any(e[0] == 'R' for e in h)]
        self.rng.shuffle(pool)
        npairs = 6 if quick else 40
        for a, b in zip(pool[:npairs], pool[npairs : 2 * npairs]):
            # every event of a `with` history takes one turn, so a thread with n events has n turns
            for sched in set(itertools.permutations([0] * len(a) + [1] * len(b))):
                cases.append({'kind': 'threads', 'histories': {'0': a, '1': b}, 'schedule': list(sched), 'forks': {}})
        for _ in range(40 if quick else 400):
            ha = random_history(self.rng, 6, KWS)
            hb = random_history(self.rng, 5, KWS)
            hc = random_history(self.rng, 4, KWS)
            # thread 0 forks context 2 at a random point
            k = self.rng.randrange(len(ha) + 1)
            ha2 = ha[:k] + [['F', 2]] + ha[k:]
            sched = [0] * len(ha2) + [1] * len(hb)
            self.rng.shuffle(sched)
            # context 2's turns may only come after the fork
            first_fork = [i for i, t in enumerate(sched) if t == 0][k]
            rest = sched[first_fork + 1 :] + [2] * len(hc)
            self.rng.shuffle(rest)
            sched = sched[: first_fork + 1] + rest
            cases.append({'kind': 'threads', 'histories': {'0': ha2, '1': hb, '2': hc}, 'schedule': sched, 'forks': {'2': 0}})
        # after the creation: derivations, routes of application, jit arguments, ConfigState equality
        cases += after_creation_cases(self.rng, quick)
        for h in enum_histories(6, KWS[:2] if quick else KWS[:3], derive=True):
            cases.append({'kind': 'single', 'events': h, 'fx': True})
        for _ in range(200 if quick else 4000):
            h = random_history(self.rng, self.rng.randrange(6, 16), KWS, derive=0.2)
            cases.append({'kind': 'single', 'events': h, 'fx': True})
        for _ in range(20 if quick else 300):
            h = random_history(self.rng, self.rng.randrange(8, 14), KWS, derive=0.15, routes=['eager', 'jitarg', 'jitarg', 'fjitarg', 'jit', 'matrix'])
            cases.append({'kind': 'single', 'events': h, 'fx': True, 'directed': 'random-routes'})
        for _ in range(60 if quick else 600):
            ha = random_history(self.rng, 7, KWS, derive=0.25)
            hb = random_history(self.rng, 6, KWS, derive=0.25)
            sched = [0] * len(ha) + [1] * len(hb)
            self.rng.shuffle(sched)
            cases.append({'kind': 'threads', 'histories': {'0': ha, '1': hb}, 'schedule': sched, 'forks': {}})
        cases += eq_cases(self.rng, quick)
        # Config objects BUILT at one point and ENTERED at another (round 3): directed, exhaustive small scope, random
        # (with inverses, derivations and routes), threads / contexts that are handed objects built by another thread
        # entering an object again while its block is open: only where the code under test keeps its tokens per context
        # (fixes/C19-config-reentrant.diff); with the pinned one-token-per-object form such histories are outside the model
        re_ok = reentrant_config()
        self.stats['config_objects_entered_again_while_open'] = 'exercised' if re_ok else 'not exercised (Config keeps ONE token per object)'
        cases += preset_cases(self.rng, quick, re_ok)
        for h in enum_preset_histories(6 if quick else 7, KWS[:2], re_ok):
            cases.append({'kind': 'single', 'events': h, 'fx': True, 'directed': 'preset-enum'})
        for _ in range(150 if quick else 3000):
            h = random_history(self.rng, self.rng.randrange(7, 16), KWS, derive=0.08, presets=0.3, reentrant=re_ok)
            if any(e[0] == 'P' for e in h):
                cases.append({'kind': 'single', 'events': h, 'fx': True, 'directed': 'preset-random'})
        for _ in range(8 if quick else 150):
            h = random_history(self.rng, self.rng.randrange(8, 14), KWS, derive=0.1, presets=0.3, routes=['eager', 'jitarg', 'fjitarg', 'jit', 'matrix'], reentrant=re_ok)
            if any(e[0] == 'P' for e in h):
                cases.append({'kind': 'single', 'events': h, 'fx': True, 'directed': 'preset-random'})
        for _ in range(60 if quick else 800):
            cases.append(preset_thread_case(self.rng, KWS, re_ok))
        table = preset_sensitivity(cases)
        holes = [FIELD[f] for f, n in table.items() if n == 0]
        if holes:
            raise RuntimeError(f'generator self-check: no Config object is entered under a value of {holes} other than the one it was built under, with a read after its block')
        self.stats['preset_blocks_entered_under_another_value_than_built_and_read_after'] = {FIELD[f]: n for f, n in table.items()}
        self.exhaustive = False
        # generator self-check (fail closed): every introspected configuration field, every ordered pair of its
        # values, is exercised where taking it from the wrong configuration shows - the configuration active at
        # application time, at derivation time, or that of an object passed earlier to the same jitted function
        im = impl()
        tables, per_how, per_route, inv_inv = sensitivity(cases)
        for name in im['fields']:
            f = next(k for k, v in FIELD.items() if v == name)
            for what, table in tables.items():
                holes = [p for p, n in table[f].items() if n == 0]
                if holes:
                    raise RuntimeError(f'generator self-check ({what}): no effect case separates the values {holes} of {name}')
            for what, table in [('derivation by', per_how), ('application through', per_route)]:
                holes = [k for k, t in table.items() if t[f] == 0]
                if holes:
                    raise RuntimeError(f'generator self-check: no effect case where {name} decides the outcome of a {what} {holes}')
            if inv_inv[f] == 0:
                raise RuntimeError(f'generator self-check: no effect case tells the new inverse made by .I.I from the old one through {name}')
        for what, table in tables.items():
            self.stats[f'effect_sensitive_{what}'] = {FIELD[f]: {'total': sum(t.values()), 'min_per_value_pair': min(t.values())} for f, t in table.items()}
        self.stats['effect_sensitive_per_derivation'] = {k: sum(t.values()) for k, t in per_how.items()}
        self.stats['effect_sensitive_per_route'] = {k: sum(t.values()) for k, t in per_route.items()}
        self.stats['genuine_solves'] = 2 * sum(len(applications(c['events'])) for c in cases if c.get('fx'))
        self.stats['reference_solves'] = {f'solver{s}/options{o}': [r['steps'], r['ok']] for (s, o), r in sorted(im['ref'].items())}
        return cases

    def finding_key(self, case, obs):
        if case.get('key'):
            return case['key']
        if isinstance(obs, dict) and obs.get('raised') and case.get('kind') == 'single':
            return REENTRANT_KEY if 'Token' in obs['raised'] or 'token' in obs['raised'] else None
        return None

    def rule(self):
        return (
            'single (every application observed through the stored field AND the effect of two genuine solves op.I(y)): '
            'directed capture histories - every configuration field (by introspection) x every ordered pair of its values '
            'between creation and application x 5 (quick) / all 32-64 (thorough) values of the other fields x 5 nesting '
            'shapes (sibling block, nested block, exceptional exits, applied under defaults, created under defaults), '
            'some through jax.jit; every well-nested history of <=5 (quick) / <=6 (thorough) events over enter(3-4 keyword '
            'sets)/exit/exit-by-exception/new-inverse/apply-inverse/read, plus seeded random histories of 6-15 events over '
            '10 keyword sets; threads: all interleavings of pairs of histories of <=4 events on real threads, plus random '
            'schedules with a forked context. AFTER THE CREATION (effect-observed as well): objects derived from an inverse under '
            'another configuration - 11 ways (reduce of the inverse alone / composed on the left / right / both sides / scaled / summed / '
            'in a block diagonal / column / row, pytree round trip, .I.I) x every field x every ordered pair (value at creation, value at '
            'derivation) x 3 (quick) / 8 (thorough) values of the other fields x 5 nesting shapes (sibling, nested, after all blocks, '
            'later block, derived twice); every way of deriving x 4 compiled routes of application (jit closure, argument of one '
            'jax.jit / equinox.filter_jit function per history, generic as_matrix); two inverses whose configurations differ in ONE field '
            'passed one after the other to the same jitted function - every field x every ordered pair of values x 3 shapes; every '
            'well-nested history of <=6 events with 1-2 derivations; seeded random histories with derivations (20%) and mixed routes; '
            'random 2-thread schedules with derivations; ConfigState equality / tree-structure equality of the inverses for pairs of '
            'configurations differing in exactly one field (every field, every pair of values), equal pairs built separately, random pairs. '
            'Generator self-check (fail closed): for every field and ordered pair of values there is an application whose outcome changes if '
            'the field is taken from the configuration active at application / at derivation / of an object passed earlier to the same '
            'jitted function; every way of deriving and every route is outcome-relevant for every field. '
            'CONFIG OBJECTS BUILT AT ONE POINT AND ENTERED AT ANOTHER (events B = p = Config(kw), P = with p_i): every field x every ordered '
            'pair (value active at build, value active at enter) x keywords of the object x 7 shapes (built at top level and entered in a '
            'block; built in a block and entered after it / in a sibling block / in a nested block; the same object at three depths one '
            'after the other; inside the block of another kept object; an object built inside a kept object\'s block) x normal / '
            'exceptional exits, with reads and inverse creations inside and after the block; every well-nested history of <=6 (quick) / <=7 '
            'events over build(2) / enter-object / enter-inline / exit / exit-by-exception / read that enters an object and reads; seeded '
            'random histories mixing them with inverses, derivations and routes; threads: a plain thread or a copied context is handed '
            'objects built by thread 0 (at top level and inside blocks) and enters them under a random schedule. Self-check: for every '
            'field some object is entered under another value than it was built under and a read follows its block. After every application '
            'the stored and the active configuration are re-read, and every object at the end of the history. '
            'Non-trivial: contains at least one enter and one read/apply (equality cases: always).'
        )

    def distribution(self, cases):
        d = {}
        for c in cases:
            k = c['kind'] + ('/directed-' + c['directed'] if c.get('directed') else '') + ('/jit' if c.get('jit') else '')
            if c['kind'] == 'single' and not c.get('directed') and any(e[0] == 'D' for e in c['events']):
                k += '/with-derivations'
            d[k] = d.get(k, 0) + 1
        return d

    def nontrivial(self, case, obs):
        if case['kind'] == 'eq':
            return True
        evs = case['events'] if case['kind'] == 'single' else sum(case['histories'].values(), [])
        return any(e[0] in ('E', 'P') for e in evs) and any(e[0] in ('R', 'A') for e in evs)

    def run_impl(self, case):
        fc = impl()['fc']
        if case['kind'] == 'eq':
            return contextvars.Context().run(run_eq, case)
        if case['kind'] == 'single':
            r = Runner(case['events'], fx=case.get('fx', False), jit=case.get('jit', False))

            def go():
                try:
                    end = r.block(0)
                except (RuntimeError, ValueError, LookupError) as e:
                    # an enter / exit of the code under test raised (e.g. a context-variable token used twice, or in
                    # another context): an observation - the oracle reports it with the history
                    if isinstance(e, IndexError):
                        raise
                    return {'raised': f'{type(e).__name__}: {str(e)[:160]}', 'active_then': cfg_ids(fc.Config.instance())}
                assert end == len(case['events']), 'unbalanced'
                return cfg_ids(fc.Config.instance())

            final = contextvars.Context().run(go)
            out = {'obs': [o for _, o in r.obs], 'final': final, 'objects': [held_ids(X.ops[0]) for X in r.invs]}
            if isinstance(final, dict):
                out.update(final=None, **final)
            # 'objects': the configuration every object stores at the END of the history (applied or not)
            return out
        hist = {int(k): v for k, v in case['histories'].items()}
        gate = Gate(case['schedule'], hist, case.get('forks', {}))
        forked = {int(k) for k in case.get('forks', {})}
        with contextlib.redirect_stdout(io.StringIO()):  # default_solver_callback prints
            for tid in hist:
                if tid not in forked:
                    gate.start(tid)
            for th in list(gate.threads):
                th.join(30)
            for th in list(gate.threads):
                th.join(30)
        if gate.errors:
            return {'error': gate.errors}
        return {'obs': [[t, o] for t, o in gate.log]}

    def model_term(self, case):
        if case['kind'] == 'eq':
            return f"eq_fields {clist(case['a'], cz)} {clist(case['b'], cz)}"
        if case['kind'] == 'single':
            if case.get('fx'):
                tbl = clist(impl()['fails'], lambda so: f'({cz(so[0])}, {cz(so[1])})')
                return f'run_single_fx {tbl} ' + clist(case['events'], coq_event)
            return 'run_single ' + clist(case['events'], coq_event)
        # global: interleave per the schedule
        pos = {int(k): 0 for k in case['histories']}
        evs = []
        for t in case['schedule']:
            e = case['histories'][str(t)][pos[t]]
            pos[t] += 1
            if e[0] == 'F':
                evs.append(f'Fork {t}%nat {e[1]}%nat')
            elif e[0] == 'T':
                evs.append(f'Hand {t}%nat {e[1]}%nat')
            else:
                evs.append(f'Ev {t}%nat ({coq_event(e)})')
        return 'run_global ' + clist(evs)

    def decode(self, case, v):
        if case['kind'] == 'eq':
            return {'eq': bool(v)}
        if case['kind'] == 'single':
            obs, final = v
            if case.get('fx'):
                out = []
                for e, (cfg, (main, sing)) in zip(case['events'], obs):
                    if cfg == []:
                        out.append(None)
                    elif e[0] == 'A':
                        out.append({
                            'cfg': cfg,
                            'main': ['ret'] + list(main) if main else ['raised'],
                            'sing': ['ret', sing[2]] if sing else ['raised'],
                        })  # fmt: skip
                    else:
                        out.append(cfg)
                return {'obs': out, 'final': final}
            return {'obs': [o if o != [] else None for o in obs], 'final': final}
        return {'obs': [[t, (o if o != [] else None)] for t, o in v]}

    def comparable(self, case, obs):
        if case['kind'] == 'eq' and isinstance(obs, dict) and 'eq' in obs:
            return {'eq': obs['eq']}
        if not isinstance(obs, dict) or 'obs' not in obs:
            return obs
        if case['kind'] == 'single':
            # the model prints None for events without observation and [] for an unknown inverse
            return {'obs': [None if o in (None, []) else o for o in obs['obs']], 'final': obs['final']}
        out = []
        for t, o in obs['obs']:
            if o == 'fork':
                continue
            out.append([t, None if o in (None, []) else o])
        return {'obs': out}

    def oracle(self, case, obs):
        if 'error' in obs:
            return f'threads failed: {obs["error"]}'
        if case['kind'] == 'eq':
            same = case['a'] == case['b']
            names = [FIELD[f] for f in SETTINGS]
            what = f'ConfigState a = {dict(zip(names, case["a"]))}, b = {dict(zip(names, case["b"]))} [{LEGEND.split(";")[0]} ...; see harness/c19.py impl()]'
            if obs['ids'] != [case['a'], case['b']]:
                return f'{what}: the blocks `with Config(**kw) as c` returned configurations holding {obs["ids"]}'
            bad = [k for k in ('eq', 'inverse_config_eq', 'inverse_treedef_eq') if obs[k] != same]
            if obs['ne'] == obs['eq']:
                bad.append('ne')
            if same and obs['hash'] == 'different':
                bad.append('hash')
            if bad:
                diff = [FIELD[f] for j, f in enumerate(SETTINGS) if case['a'][j] != case['b'][j]]
                return (f'{what}: the configurations differ in {diff or "nothing"} but {({k: obs[k] for k in bad})}: InverseOperator.config is a '
                        'static pytree field, so the jit cache of a function taking lazy inverses as ARGUMENTS keys on this equality - two '
                        'inverses created under these configurations would run with the configuration of whichever was traced first')  # fmt: skip
            return None
        if case['kind'] == 'single':
            fx = case.get('fx', False)
            exp, final = lib.canon(reference(case['events'], fx=fx))
            got = obs['obs']
            if obs.get('raised'):
                trace = []
                list(walk(case['events'], trace=trace))
                twice = sorted({t['preset'] for t in trace for u in trace if u is not t and u['preset'] == t['preset'] and t['i'] < u['i'] < t['exit']})
                return (f'the history raised {obs["raised"]} after {len(got)} recorded events (a block could not be left); the active configuration is '
                        f'then {obs.get("active_then")}, the reference expects every exit to restore the configuration active at the matching enter'
                        + (f'; Config object(s) p{twice} are entered again while their own block is open: Config keeps one token per OBJECT '
                           '(`self.token`), the inner enter overwrites the outer token' if twice else ''))
            if got != exp:
                i = next(i for i, (a, b) in enumerate(zip(got, exp)) if a != b)
                msg = f'event {i} {case["events"][i]} observed {got[i]} expected {exp[i]}'
                if fx and isinstance(got[i], dict):
                    a = next(a for a in applications(case['events'], case.get('jit', False)) if a['i'] == i)
                    cap, act = a['cap'], a['act']
                    names = [FIELD[f] for f in SETTINGS]
                    show = lambda c: dict(zip(names, c))  # noqa: E731
                    msg += f' [{LEGEND}]'
                    msg += f'; the lazy inverse held by the applied object was created under {show(cap)}'
                    if a['replaced'] is not None:
                        msg += f' (by .I.I, from an inverse created under {show(a["replaced"])})'
                    if a['derived']:
                        msg += '; the object was then derived by ' + ', '.join(f'{h} under {show(c)}' for h, c in a['derived'])
                    msg += f'; it is applied (route {a["route"]}) under {show(act)}'
                    if a['earlier']:
                        msg += f'; objects passed earlier to the same jitted function carried {[show(c) for c in a["earlier"]]}'
                    eff = {k: got[i].get(k) for k in ('main', 'sing')}
                    same = lambda c: lib.canon(expected_effect(c)) == eff  # noqa: E731
                    stored = got[i].get('cfg')
                    whys = []
                    for label, other in (
                        [('the configuration active at APPLICATION time', act)]
                        + [(f'the configuration active at DERIVATION time ({h})', c) for h, c in a['derived']]
                        + [('an object passed EARLIER to the same jitted function (jit cache hit)', c) for c in a['earlier']]
                        + ([('the inverse .I.I was taken from', a['replaced'])] if a['replaced'] is not None else [])
                    ):
                        why = [sub for sub, h in hybrids(cap, other) if same(h)]
                        if why:
                            whys.append(f'{[FIELD[f] for f in why[0]]} were taken from {label}')
                    if 'cfg_stored_AFTER_the_application' in got[i] or 'active_configuration_changed_by_the_application' in got[i]:
                        msg += (': APPLYING the object modified a configuration (-1 = a setting object that is none of the ones the history '
                                f'configured; compared with an independent record of the setting objects): stored by the object after the application '
                                f'{got[i].get("cfg_stored_AFTER_the_application", "unchanged")}, active [before, after] '
                                f'{got[i].get("active_configuration_changed_by_the_application", "unchanged")}')
                    if stored != cap:
                        msg += f': the object stores {show(stored) if isinstance(stored, list) and len(stored) == 4 else stored}'
                    if whys:
                        msg += ': op.I(y) [main: A x = y, sing: singular Z x = y] behaves as if ' + ' / or as if '.join(whys)
                    elif stored == cap:
                        msg += ': the effect of op.I(y) is not that of the captured configuration (whose fields are stored intact)'
                trace = []
                list(walk(case['events'], trace=trace))
                if trace:
                    names = [FIELD[f] for f in SETTINGS]
                    show = lambda c: dict(zip(names, c))  # noqa: E731
                    msg += '; blocks opened by entering a Config object built earlier: ' + '; '.join(
                        f"event {t['i']} enters p{t['preset']} (built under {show(t['built_under'])}) under {show(t['entered_under'])}"
                        f" - its exit (event {t['exit']}) must restore the latter" for t in trace)
                return msg
            if obs['final'] != [0, 0, 0, 0]:
                return f'configuration after the history is {obs["final"]}, not the defaults'
            want = [o['cfg'] for o in list(walk(case['events']))[-1][3]] if case['events'] else []
            if 'objects' in obs and obs['objects'] != lib.canon(want):
                j = next((j for j, (a, b) in enumerate(zip(obs['objects'], want)) if a != b), None)
                return (f'at the END of the history object {j} stores the configuration {obs["objects"][j] if j is not None else obs["objects"]}, '
                        f'not the one active at its creation {want[j] if j is not None else want} (-1 = a setting object that is none of the ones the '
                        f'history configured: the configuration captured by an inverse was modified after its creation) [{LEGEND}]')
            return None
        # threads: each thread's observations equal those of its history alone
        starts = {}
        per = {}
        for t, o in obs['obs']:
            per.setdefault(t, []).append(o)
        # a forked context starts from the parent's configuration at the fork, a plain thread from the defaults;
        # both are handed the Config objects the parent has built so far (the prefix may be unbalanced)
        handed = {}
        for child, parent in case.get('forks', {}).items():
            h = case['histories'][str(parent)]
            k = next(i for i, e in enumerate(h) if e[0] in ('F', 'T') and e[1] == int(child))
            cur, presets, _ = state_before(h, k)
            starts[int(child)] = cur if h[k][0] == 'F' else [0, 0, 0, 0]
            handed[int(child)] = presets
        for t, h in case['histories'].items():
            exp, _ = reference(h, starts.get(int(t)), presets0=handed.get(int(t)))
            if per.get(int(t), []) != exp:
                return f'thread {t} observed {per.get(int(t))} but alone it observes {exp}'
        return None
