"""C19 - solver configuration is scoped, restored and captured correctly."""
from __future__ import annotations

import contextlib
import contextvars
import dataclasses
import io
import itertools
import re
import threading

import lib
from lib import PropertyCheck, clist, cz

SETTINGS = ['solver', 'throw', 'options', 'callback']
COQ_SET = {'solver': 'SSolver', 'throw': 'SThrow', 'options': 'SOptions', 'callback': 'SCallback'}
# the ConfigState field behind each abstract setting of the model (Model/Config.v: cfg).  The real fields
# are enumerated by introspection (check_fields): a field without an entry here - one whose effect on
# `op.I(y)` this harness does not know how to observe - fails the check closed.
FIELD = {'solver': 'solver', 'throw': 'solver_throw', 'options': 'solver_options', 'callback': 'solver_callback'}
VALUES = {'solver': [0, 1, 2, 3], 'throw': [0, 1], 'options': [0, 1, 2, 3], 'callback': [0, 1, 2, 3]}

# The probed system (exact small integers; float64): A is SPD 16x16 with eigenvalues in [2.4, 9.5]; Z is A with
# its last row and column zeroed (singular) and B has a component in the null space of Z, so NO solver can
# solve Z x = B (the residual keeps that component): the solve fails whatever the solver and the options.
N = 16
B = [3, 2, -3, -1, -2, -4, -2, 2, 2, 1, -1, 0, 0, -4, -4, -3]
X0 = [0, 1, 0, -1, 0, 1, 0, -1, 0, 0, -1, 0, -1, 1, 1, 0]
MARGIN = 0.1  # every stopping decision of the reference solves is at least a factor 10**MARGIN from its threshold
VEC_TOL = 1e-9  # relative (max norm) tolerance when recognising a returned vector among the reference vectors

LEGEND = (
    "identifiers: solver 0 = the default CG(rtol=atol=1e-6, max_steps=500), 1 = CG(1e-12, 1e-12, max_steps=2), "
    "2 = CG(1e-12, 1e-12, max_steps=3), 3 = CG(1/64, 1/64, max_steps=500); solver_throw 0/1 = False/True; "
    "solver_options 0 = {}, 1 = {preconditioner: Jacobi}, 2 = {y0: X0}, 3 = {preconditioner: P2, y0: X0}; "
    "solver_callback 0 = default_solver_callback, n = recording callback n; 'main' = effect of A.I(B) (16x16 SPD, see "
    "harness/c19.py matrices()), 'sing' = effect of Z.I(B) (singular: every solve fails), as ['raised'] or "
    "['ret', solver and options whose reference solve gives the returned vector and step count, callback that ran]"
)

_impl = {}


def matrices():
    import numpy as np

    A = np.zeros((N, N))
    for i in range(N):
        A[i, i] = 4 + (i * 7 % 5)
        if i + 1 < N:
            A[i, i + 1] = A[i + 1, i] = -1
        if i + 3 < N:
            A[i, i + 3] = A[i + 3, i] = 1
    Z = A.copy()
    Z[-1, :] = 0
    Z[:, -1] = 0
    P1 = np.diag(1 / np.diag(A))  # Jacobi
    P2 = P1.copy()
    for i in range(N - 1):
        P2[i, i + 1] = P2[i + 1, i] = 1 / 32
    return A, Z, P1, P2, np.array(B, float), np.array(X0, float)


def reference_pcg(A, b, rtol, atol, max_steps, P=None, x0=None):
    """Textbook preconditioned conjugate gradient in NumPy with the termination rule documented by lineax.CG
    (both |r| <= atol + rtol |b| and |last update| <= atol + rtol |x| elementwise; success iff it stops
    before max_steps).  Returns (x, steps, successful, distance of the closest stopping decision from 1 in log10)."""
    import numpy as np

    n = len(b)
    x = np.zeros(n) if x0 is None else np.array(x0, float)
    r = b - A @ x
    z = r if P is None else P @ r
    p = z.copy()
    gamma = z @ r
    diff = np.full(n, np.inf)
    step = 0
    bscale = atol + rtol * np.abs(b)
    margin = float('inf')
    while True:
        yscale = atol + rtol * np.abs(x)
        with np.errstate(all='ignore'):
            dec = max(np.max(np.abs(r / bscale)), np.max(np.abs(diff / yscale)))
        if np.isfinite(dec) and dec > 0:
            margin = min(margin, abs(float(np.log10(dec))))
        if not (gamma > 0 and step < max_steps and dec > 1):
            break
        Ap = A @ p
        alpha = gamma / (Ap @ p)
        diff = alpha * p
        x = x + diff
        step += 1
        r = r - alpha * Ap
        z = r if P is None else P @ r
        g2 = z @ r
        p = z + (g2 / gamma) * p
        gamma = g2
    return x, step, step != max_steps, margin


def check_fields(fc):
    """The configuration fields, by introspection; fail closed on one this harness cannot observe."""
    names = [f.name for f in dataclasses.fields(fc.ConfigState)]
    unknown = sorted(set(names) - set(FIELD.values()))
    missing = sorted(set(FIELD.values()) - set(names))
    if unknown or missing:
        raise lib.Tie(
            f'ConfigState fields {names}: the harness does not know how to observe the effect of {unknown} on op.I(y)'
            f' (fields of the model that no longer exist: {missing}); model cfg and harness FIELD must be extended'
        )
    return names


def impl():
    """Real objects for the abstract setting identifiers, the probed operators and the reference outcomes."""
    if _impl:
        return _impl
    import jax

    jax.config.update('jax_enable_x64', True)
    import jax.numpy as jnp
    import lineax as lx
    import numpy as np
    from furax._base import config as fc
    from furax._base.dense import DenseBlockDiagonalOperator

    fields = check_fields(fc)
    default = fc.ConfigState()
    A, Z, P1, P2, b, x0 = matrices()
    struct = jax.ShapeDtypeStruct((N,), jnp.float64)

    def dense(M):
        return DenseBlockDiagonalOperator(jnp.asarray(M, dtype=jnp.float64), struct, 'ij,j->i')

    # solver 0 is THE default object; 1, 2 stop at max_steps (the solve of A fails), 3 stops early by tolerance
    solvers = {
        0: default.solver,
        1: lx.CG(rtol=1e-12, atol=1e-12, max_steps=2),
        2: lx.CG(rtol=1e-12, atol=1e-12, max_steps=3),
        3: lx.CG(rtol=1 / 64, atol=1 / 64, max_steps=500),
    }
    y0 = jnp.asarray(x0, dtype=jnp.float64)
    options = {0: {}, 1: {'preconditioner': dense(P1)}, 2: {'y0': y0}, 3: {'preconditioner': dense(P2), 'y0': y0}}
    ref_opts = {0: {}, 1: {'P': P1}, 2: {'x0': x0}, 3: {'P': P2, 'x0': x0}}
    callbacks = {0: default.solver_callback}
    for n in (1, 2, 3):

        def cb(solution, n=n):
            _impl['cb_log'].append([n, int(solution.stats['num_steps'])])

        callbacks[n] = cb
    # independent reference outcome of A x = B for every (solver, options)
    ref = {}
    for s, sv in solvers.items():
        for o, kw in ref_opts.items():
            x, steps, ok, margin = reference_pcg(A, b, float(sv.rtol), float(sv.atol), int(sv.max_steps), **kw)
            if margin < MARGIN:
                raise RuntimeError(f'harness self-check: reference solve (solver {s}, options {o}) decides within 10**{margin:.3f} of a threshold')
            ref[s, o] = {'x': x, 'steps': steps, 'ok': bool(ok)}
    keys = sorted(ref)
    for i, k1 in enumerate(keys):
        for k2 in keys[i + 1 :]:
            d = np.max(np.abs(ref[k1]['x'] - ref[k2]['x'])) / np.max(np.abs(ref[k1]['x']))
            if d < 20 * VEC_TOL:
                raise RuntimeError(f'harness self-check: reference vectors of {k1} and {k2} are not separated ({d:.2e})')
    _impl.update(
        fc=fc, fields=fields, solvers=solvers, callbacks=callbacks, options=options, cb_log=[], default=default,
        opA=dense(A), opZ=dense(Z), y=jnp.asarray(b, dtype=jnp.float64), ref=ref,
        fails=sorted(k for k in ref if not ref[k]['ok']),
    )
    return _impl


def to_kwargs(kw: dict) -> dict:
    im = impl()
    out = {}
    for k, v in kw.items():
        if k == 'solver':
            out['solver'] = im['solvers'][v]
        elif k == 'throw':
            out['solver_throw'] = bool(v)
        elif k == 'options':
            out['solver_options'] = im['options'][v]
        elif k == 'callback':
            out['solver_callback'] = im['callbacks'][v]
        else:
            raise ValueError(k)
    return out


def cfg_ids(state) -> list[int]:
    """The identifiers of the settings held by a ConfigState (read field by field)."""
    im = impl()
    solver = next((n for n, s in im['solvers'].items() if s is state.solver), -1)
    if solver == -1:
        solver = next((n for n, s in im['solvers'].items() if s == state.solver), -1)
    callback = next((n for n, c in im['callbacks'].items() if c is state.solver_callback), -1)
    options = -1
    if isinstance(state.solver_options, dict):
        for n, d in im['options'].items():
            if set(d) == set(state.solver_options) and all(state.solver_options[k] is d[k] for k in d):
                options = n
    throw = int(state.solver_throw) if isinstance(state.solver_throw, bool) else -1
    return [solver, throw, options, callback]


# ---- the effect of a configuration on op.I(y) ------------------------------------------------------


def probe(inv, jit=False):
    """Apply a lazy inverse to B: (exception type or None, returned vector or None, callbacks that ran)."""
    import jax

    im = impl()
    log = im['cb_log']
    del log[:]
    buf = io.StringIO()
    raised, x = None, None
    with contextlib.redirect_stdout(buf):
        try:
            f = jax.jit(lambda v: inv(v)) if jit else inv
            x = f(im['y'])
            jax.block_until_ready(x)
        except RuntimeError as e:  # lineax reports a failed solve (throw=True) as a runtime error
            raised = type(e).__name__
        except Exception as e:  # anything else is not "the solve failed": reported as an odd effect
            raised = f'unexpected {type(e).__name__}: {str(e)[:200]}'
        jax.effects_barrier()
    cbs = [list(r) for r in log]
    text = buf.getvalue()
    for m in re.finditer(r'(Converged|Did not converge) in (\d+) iterations', text):  # default_solver_callback
        cbs.append([0, int(m.group(2))])
    return raised, x, cbs


def classify(x):
    """(solver, options) whose reference solve of A x = B returns this vector, or None."""
    import numpy as np

    x = np.asarray(x, dtype=float)
    if x.shape != (N,) or not np.all(np.isfinite(x)):
        return None
    for k, r in sorted(impl()['ref'].items()):
        if np.max(np.abs(x - r['x'])) <= VEC_TOL * np.max(np.abs(r['x'])):
            return k
    return None


def observe_effect(pair, jit=False):
    """Abstract effect (Model.Config.effect) of applying the inverses of A and of Z created together."""
    import numpy as np

    im = impl()
    out = {}
    raised, x, cbs = probe(pair[0], jit)
    if raised and raised.startswith('unexpected'):
        out['main'] = ['odd', {'raised': raised, 'callbacks': cbs}]
    elif raised:
        # eagerly the callback line is not reached; under jit the order of error and callback is unspecified
        out['main'] = ['raised'] if (jit or not cbs) else ['odd', {'raised': raised, 'callbacks': cbs}]
    else:
        k = classify(x)
        if k is not None and len(cbs) == 1 and cbs[0][1] == im['ref'][k]['steps']:
            out['main'] = ['ret', k[0], k[1], cbs[0][0]]
        else:
            out['main'] = ['odd', {'vector_of_solver_options': list(k) if k else None, 'callbacks': cbs,
                                   'x[:3]': [float(v) for v in np.asarray(x).ravel()[:3]]}]
    raised, x, cbs = probe(pair[1], jit)
    if raised and raised.startswith('unexpected'):
        out['sing'] = ['odd', {'raised': raised, 'callbacks': cbs}]
    elif raised:
        out['sing'] = ['raised'] if (jit or not cbs) else ['odd', {'raised': raised, 'callbacks': cbs}]
    elif len(cbs) == 1:
        out['sing'] = ['ret', cbs[0][0]]
    else:
        out['sing'] = ['odd', {'callbacks': cbs}]
    return out


def expected_effect(ids):
    """What lineax does with the configuration `ids` (independent reference): the solve of A fails for the
    (solver, options) pairs whose reference solve stops at max_steps, the solve of Z always fails; a failed
    solve raises iff solver_throw; otherwise the vector/statistics of (solver, options) and the callback."""
    s, t, o, c = ids
    fails = not impl()['ref'][s, o]['ok']
    return {
        'main': ['raised'] if (fails and t) else ['ret', s, o, c],
        'sing': ['raised'] if t else ['ret', c],
    }


class Boom(Exception):
    pass


def make_inverse(fx=False):
    """Genuine lazy inverses (iterative solver) obtained with `op.I`: of A and, for effect cases, of Z."""
    from furax._base.core import InverseOperator

    im = impl()
    invs = [im['opA'].I] + ([im['opZ'].I] if fx else [])
    for inv in invs:
        if type(inv) is not InverseOperator:
            raise RuntimeError(f'op.I is a {type(inv).__name__}, not a lazy InverseOperator')
    return invs


class Runner:
    """Executes one thread's history with genuine `with Config(...)` statements."""

    def __init__(self, events, gate=None, tid=0, log=None, fx=False, jit=False):
        self.events = events
        self.gate = gate
        self.tid = tid
        self.obs = log if log is not None else []
        self.invs = []
        self.fx = fx  # observe applications through their EFFECT (genuine solves), not only the stored field
        self.jit = jit

    def record(self, o):
        self.obs.append((self.tid, o))

    def block(self, pos: int) -> int:
        fc = impl()['fc']
        ev = self.events
        while pos < len(ev):
            e = ev[pos]
            if e[0] in ('X', 'XE'):
                return pos
            if self.gate:
                self.gate.wait_turn(self.tid)
            if e[0] == 'E':
                cm = fc.Config(**to_kwargs(e[1]))
                self.record(None)
                if self.gate:
                    # the constructor ran at its turn; entering happens right away (with statement)
                    pass
                try:
                    with cm:
                        if self.gate:
                            self.gate.done()
                        pos = self.block(pos + 1)
                        if pos >= len(ev):
                            raise RuntimeError('history is not well nested')
                        if self.gate:
                            self.gate.wait_turn(self.tid)
                        self.record(None)
                        if ev[pos][0] == 'XE':
                            raise Boom()
                except Boom:
                    pass
                if self.gate:
                    self.gate.done()
                pos += 1
                continue
            if e[0] == 'N':
                self.invs.append(make_inverse(self.fx))
                self.record(None)
            elif e[0] == 'A':
                pair = self.invs[e[1]] if e[1] < len(self.invs) else None
                if pair is None:
                    self.record([])
                elif not self.fx:
                    self.record(cfg_ids(pair[0].config))
                else:
                    o = {'cfg': cfg_ids(pair[0].config)}
                    if cfg_ids(pair[1].config) != o['cfg']:
                        o['cfg_of_second_inverse'] = cfg_ids(pair[1].config)
                    o.update(observe_effect(pair, self.jit))
                    self.record(o)
            elif e[0] == 'R':
                self.record(cfg_ids(fc.Config.instance()))
            elif e[0] == 'F':  # fork a context copy that runs another history
                self.gate.fork(self, e[1])
                self.record('fork')
            else:
                raise ValueError(e)
            if self.gate:
                self.gate.done()
            pos += 1
        return pos


class Gate:
    """Forces a given global schedule on real threads (one event of the scheduled thread at a time)."""

    def __init__(self, schedule, histories, forks):
        self.schedule = schedule
        self.pos = 0
        self.cv = threading.Condition()
        self.histories = histories
        self.log = []
        self.threads = []
        self.errors = []
        self.forks = forks

    def wait_turn(self, tid):
        with self.cv:
            ok = self.cv.wait_for(
                lambda: self.pos >= len(self.schedule) or self.schedule[self.pos] == tid, timeout=20
            )
            if not ok or self.pos >= len(self.schedule):
                raise RuntimeError(f'schedule exhausted or timed out for thread {tid}')

    def done(self):
        with self.cv:
            self.pos += 1
            self.cv.notify_all()

    def start(self, tid, ctx=None):
        r = Runner(self.histories[tid], gate=self, tid=tid, log=self.log)

        def target():
            try:
                end = r.block(0)
                if end != len(r.events):
                    raise RuntimeError('unbalanced history')
            except Exception as e:  # pragma: no cover
                self.errors.append(f'{type(e).__name__}: {e}')
                with self.cv:
                    self.pos = len(self.schedule)
                    self.cv.notify_all()

        th = threading.Thread(target=(lambda: ctx.run(target)) if ctx is not None else target)
        self.threads.append(th)
        th.start()

    def fork(self, runner, child):
        self.start(child, contextvars.copy_context())


def reference(events, start=None, fx=False):
    """Stack discipline stated independently of the Coq model: (observations, final configuration).
    With fx an application is observed as the captured settings plus their expected effect on op.I(y)."""
    cur = list(start or [0, 0, 0, 0])
    stack, invs, obs = [], [], []
    for e in events:
        if e[0] == 'E':
            stack.append(list(cur))
            for k, v in e[1].items():
                cur[SETTINGS.index(k)] = v
            obs.append(None)
        elif e[0] in ('X', 'XE'):
            cur = stack.pop()
            obs.append(None)
        elif e[0] == 'N':
            invs.append(list(cur))
            obs.append(None)
        elif e[0] == 'A':
            if e[1] >= len(invs):
                obs.append([])
            elif fx:
                obs.append({'cfg': list(invs[e[1]]), **expected_effect(invs[e[1]])})
            else:
                obs.append(list(invs[e[1]]))
        elif e[0] == 'R':
            obs.append(list(cur))
        elif e[0] == 'F':
            obs.append('fork')
    return obs, cur


def applications(events):
    """(event index, configuration captured by the applied inverse, configuration active at the application)."""
    cur, stack, invs, out = [0, 0, 0, 0], [], [], []
    for i, e in enumerate(events):
        if e[0] == 'E':
            stack.append(list(cur))
            for k, v in e[1].items():
                cur[SETTINGS.index(k)] = v
        elif e[0] in ('X', 'XE'):
            cur = stack.pop()
        elif e[0] == 'N':
            invs.append(list(cur))
        elif e[0] == 'A' and e[1] < len(invs):
            out.append((i, list(invs[e[1]]), list(cur)))
    return out


def hybrids(captured, active):
    """Configurations that take a non-empty subset of the settings from the one active at application time."""
    diff = [j for j in range(4) if captured[j] != active[j]]
    for r in range(1, len(diff) + 1):
        for sub in itertools.combinations(diff, r):
            h = list(captured)
            for j in sub:
                h[j] = active[j]
            yield [SETTINGS[j] for j in sub], h


def sensitivity(cases):
    """For every setting and every ordered pair (value at creation, value at application): the number of
    applications in the effect cases whose expected outcome would CHANGE if that one setting were taken from
    the configuration active at application time.  Zero anywhere = a blind spot of the generators."""
    table = {f: {p: 0 for p in itertools.permutations(VALUES[f], 2)} for f in SETTINGS}
    for c in cases:
        if c['kind'] != 'single' or not c.get('fx'):
            continue
        for _, cap, act in applications(c['events']):
            for j, f in enumerate(SETTINGS):
                if cap[j] != act[j]:
                    h = list(cap)
                    h[j] = act[j]
                    if expected_effect(h) != expected_effect(cap):
                        table[f][cap[j], act[j]] += 1
    return table


KWS = [
    {'throw': 1}, {'options': 2}, {'callback': 1}, {'throw': 1, 'options': 3}, {'solver': 1}, {'options': 0, 'callback': 2},
    {'solver': 2, 'throw': 0}, {'solver': 3, 'callback': 3}, {'options': 1}, {'solver': 0, 'throw': 0, 'callback': 0},
]  # fmt: skip


def nz(d):
    return {k: v for k, v in d.items() if v != 0}


def directed_histories(f, vc, va, base):
    """Setting f is vc when the inverse is created and va when it is applied, the other settings are `base`
    at both times (shapes 0-2), or the other side is the defaults (shapes 3, 4)."""
    b = nz(base)
    return [
        # created in one block, applied in a sibling block
        [['E', b], ['E', {f: vc}], ['N'], ['X'], ['E', {f: va}], ['A', 0], ['X'], ['X']],
        # created in the outer block, applied in a block nested in it
        [['E', {**b, f: vc}], ['N'], ['E', {f: va}], ['A', 0], ['X'], ['X']],
        # the creating block is left through an exception, the applying one as well
        [['E', b], ['E', {f: vc}], ['N'], ['XE'], ['E', {f: va}], ['A', 0], ['XE'], ['A', 0], ['X']],
        # created in a block, applied after every block is left (defaults active)
        [['E', {**b, f: vc}], ['N'], ['X'], ['A', 0]],
        # created under the defaults, applied inside a block
        [['N'], ['E', {**b, f: va}], ['A', 0], ['X']],
    ]


def directed_cases(rng, quick):
    """Every setting, every ordered pair of its values between creation and application, under several values
    of the other settings (always including ones under which the setting decides the outcome)."""
    cases = []
    for f in SETTINGS:
        others = [g for g in SETTINGS if g != f]
        all_bases = [dict(zip(others, vs)) for vs in itertools.product(*(VALUES[g] for g in others))]
        for vc, va in itertools.permutations(VALUES[f], 2):
            must = [dict.fromkeys(others, 0)]
            if f == 'throw':
                must.append({'solver': 1, 'options': 0, 'callback': 1})
            else:
                must.append({**dict.fromkeys(others, 0), 'throw': 1, **({'solver': 3} if f != 'solver' else {})})
            if quick:
                bases = must + rng.sample([b for b in all_bases if b not in must], 3)
            else:
                bases = must + [b for b in all_bases if b not in must]
            for n, base in enumerate(bases):
                hs = directed_histories(f, vc, va, base)
                pick = hs if (not quick or n < 2) else [hs[0], hs[1 + (n + vc + va) % 4]]
                for h in pick:
                    cases.append({'kind': 'single', 'events': h, 'fx': True, 'directed': f})
    # the same through jax.jit (the configuration is a static field of the traced inverse)
    for f in SETTINGS:
        pairs = list(itertools.permutations(VALUES[f], 2))
        for vc, va in pairs[:2] if quick else pairs:
            base = {'solver': 1, 'options': 0, 'callback': 1} if f == 'throw' else dict.fromkeys([g for g in SETTINGS if g != f], 0)
            cases.append({'kind': 'single', 'events': directed_histories(f, vc, va, base)[0], 'fx': True, 'jit': True, 'directed': f})
    return cases


def enum_histories(maxlen, kws):
    """All well-nested histories with at most maxlen events."""
    out = []

    def go(h, depth, ninv):
        if depth == 0:
            out.append(list(h))
        if len(h) + depth >= maxlen:
            # only closing moves can still fit
            if depth > 0 and len(h) < maxlen:
                for x in (['X'], ['XE']):
                    h.append(x)
                    go(h, depth - 1, ninv)
                    h.pop()
            return
        for kw in kws:
            h.append(['E', kw])
            go(h, depth + 1, ninv)
            h.pop()
        if depth > 0:
            for x in (['X'], ['XE']):
                h.append(x)
                go(h, depth - 1, ninv)
                h.pop()
        h.append(['R'])
        go(h, depth, ninv)
        h.pop()
        h.append(['N'])
        go(h, depth, ninv + 1)
        h.pop()
        if ninv > 0:
            h.append(['A', ninv - 1])
            go(h, depth, ninv)
            h.pop()

    go([], 0, 0)
    return out


def random_history(rng, length, kws):
    h, depth, ninv = [], 0, 0
    while len(h) + depth < length:
        r = rng.random()
        if r < 0.3:
            h.append(['E', rng.choice(kws)])
            depth += 1
        elif r < 0.5 and depth > 0:
            h.append(rng.choice([['X'], ['XE']]))
            depth -= 1
        elif r < 0.7:
            h.append(['R'])
        elif r < 0.82:
            h.append(['N'])
            ninv += 1
        elif ninv > 0:
            h.append(['A', rng.randrange(ninv)])
        else:
            h.append(['R'])
    while depth > 0:
        h.append(rng.choice([['X'], ['XE']]))
        depth -= 1
        if rng.random() < 0.5:
            h.append(['R'])
    return h


def coq_event(e) -> str:
    if e[0] == 'E':
        kw = clist(e[1].items(), lambda kv: f'({COQ_SET[kv[0]]}, {cz(kv[1])})')
        return f'Enter {kw}'
    return {'X': 'Exit', 'XE': 'ExitExc', 'N': 'NewInverse', 'R': 'Read'}.get(e[0]) or f'ApplyInverse {e[1]}%nat'


class Check(PropertyCheck):
    id = 'C19'
    props = ['C19.v']
    static_targets = ['theories/Lemmas/ConfigL.vo']
    coq_header = 'From Coq Require Import ZArith List.\nFrom Furax Require Import Model.Config.\nImport ListNotations.\nOpen Scope Z_scope.'
    trusted = [
        "CPython contextvars semantics as modelled: one binding per thread/context, ContextVar.set returns a token "
        "holding the previous value, reset(token) restores it, threading.Thread starts from the default, "
        "copy_context() copies",
        'setting values are abstracted to identifiers; the harness maps them to real solver/callback/options objects',
        'correspondence harness (harness/c19.py): genuine `with Config(...)` statements, real InverseOperator objects '
        '(op.I), real threads forced through each schedule',
        'effect of a configuration on op.I(y) (Model.Config.mv): the harness identifies the abstract effect of a genuine '
        'solve - exception / returned vector and iteration count recognised among the 16 (solver, options) reference '
        'solves / callback that ran - against an independent NumPy preconditioned-CG reference with the termination '
        'rule documented by lineax.CG (all stopping decisions >= 10**0.1 away from their thresholds, reference vectors '
        'separated by >= 20x the matching tolerance: self-checked on every run); the table of failing (solver, options) '
        'pairs given to the model comes from that reference; that a failed lineax solve raises iff throw is lineax semantics',
    ]

    def translate(self):
        """Static tie of Model.Config.mv to InverseOperator.mv: every ConfigState field (enumerated by
        introspection) is read from the CAPTURED configuration `self.config` and the active configuration is not
        consulted; InverseOperator.__init__ stores Config.instance()."""
        import ast
        import inspect
        import textwrap

        im = impl()
        from furax._base.core import InverseOperator

        fields = set(check_fields(im['fc']))
        tree = ast.parse(textwrap.dedent(inspect.getsource(InverseOperator.mv)))
        names = {n.id for n in ast.walk(tree) if isinstance(n, ast.Name)}
        bad = names & {'Config', 'ConfigState', '_config_var', 'contextvars'}
        if bad:
            raise lib.Tie(f'InverseOperator.mv refers to {sorted(bad)}: the model reads every setting from the captured self.config')
        read = {
            n.attr
            for n in ast.walk(tree)
            if isinstance(n, ast.Attribute) and isinstance(n.value, ast.Attribute) and n.value.attr == 'config'
            and isinstance(n.value.value, ast.Name) and n.value.value.id == 'self'
        }  # fmt: skip
        if read != fields:
            raise lib.Tie(f'InverseOperator.mv reads self.config.{sorted(read)} but ConfigState has fields {sorted(fields)}')
        init = textwrap.dedent(inspect.getsource(InverseOperator.__init__))
        if not re.search(r'self\.config\s*=\s*Config\.instance\(\)', init):
            raise lib.Tie('InverseOperator.__init__ no longer stores Config.instance() in self.config')

    def cases(self):
        quick = self.tier == 'quick'
        cases = directed_cases(self.rng, quick)
        for h in enum_histories(5 if quick else 6, KWS[:3] if quick else KWS[:4]):
            cases.append({'kind': 'single', 'events': h, 'fx': True})
        for _ in range(600 if quick else 6000):
            cases.append({'kind': 'single', 'events': random_history(self.rng, self.rng.randrange(6, 16), KWS), 'fx': True})
        # threads: all interleavings of two short histories, plus random schedules with forks
        pool = [h for h in enum_histories(4, KWS[:2]) if any(e[0] == 'E' for e in h) and any(e[0] == 'R' for e in h)]
        self.rng.shuffle(pool)
        npairs = 6 if quick else 40
        for a, b in zip(pool[:npairs], pool[npairs : 2 * npairs]):
            # every event of a `with` history takes one turn, so a thread with n events has n turns
            for sched in set(itertools.permutations([0] * len(a) + [1] * len(b))):
                cases.append({'kind': 'threads', 'histories': {'0': a, '1': b}, 'schedule': list(sched), 'forks': {}})
        for _ in range(40 if quick else 400):
            ha = random_history(self.rng, 6, KWS)
            hb = random_history(self.rng, 5, KWS)
            hc = random_history(self.rng, 4, KWS)
            # thread 0 forks context 2 at a random point
            k = self.rng.randrange(len(ha) + 1)
            ha2 = ha[:k] + [['F', 2]] + ha[k:]
            sched = [0] * len(ha2) + [1] * len(hb)
            self.rng.shuffle(sched)
            # context 2's turns may only come after the fork
            first_fork = [i for i, t in enumerate(sched) if t == 0][k]
            rest = sched[first_fork + 1 :] + [2] * len(hc)
            self.rng.shuffle(rest)
            sched = sched[: first_fork + 1] + rest
            cases.append({'kind': 'threads', 'histories': {'0': ha2, '1': hb, '2': hc}, 'schedule': sched, 'forks': {'2': 0}})
        self.exhaustive = False
        # generator self-check (fail closed): every introspected configuration field, every ordered pair of its
        # values (creation, application), is exercised where taking it from the wrong configuration shows
        im = impl()
        table = sensitivity(cases)
        for name in im['fields']:
            f = next(k for k, v in FIELD.items() if v == name)
            holes = [p for p, n in table[f].items() if n == 0]
            if holes:
                raise RuntimeError(f'generator self-check: no effect case separates creation/application values {holes} of {name}')
        self.stats['effect_sensitive_applications'] = {FIELD[f]: sum(t.values()) for f, t in table.items()}
        self.stats['effect_sensitive_min_per_value_pair'] = {FIELD[f]: min(t.values()) for f, t in table.items()}
        self.stats['genuine_solves'] = 2 * sum(len(applications(c['events'])) for c in cases if c.get('fx'))
        self.stats['reference_solves'] = {f'solver{s}/options{o}': [r['steps'], r['ok']] for (s, o), r in sorted(im['ref'].items())}
        return cases

    def rule(self):
        return (
            'single (every application observed through the stored field AND the effect of two genuine solves op.I(y)): '
            'directed capture histories - every configuration field (by introspection) x every ordered pair of its values '
            'between creation and application x 5 (quick) / all 32-64 (thorough) values of the other fields x 5 nesting '
            'shapes (sibling block, nested block, exceptional exits, applied under defaults, created under defaults), '
            'some through jax.jit; every well-nested history of <=5 (quick) / <=6 (thorough) events over enter(3-4 keyword '
            'sets)/exit/exit-by-exception/new-inverse/apply-inverse/read, plus seeded random histories of 6-15 events over '
            '10 keyword sets; threads: all interleavings of pairs of histories of <=4 events on real threads, plus random '
            'schedules with a forked context. Non-trivial: contains at least one enter and one read/apply.'
        )

    def distribution(self, cases):
        d = {}
        for c in cases:
            k = c['kind'] + ('/directed-' + c['directed'] if c.get('directed') else '') + ('/jit' if c.get('jit') else '')
            d[k] = d.get(k, 0) + 1
        return d

    def nontrivial(self, case, obs):
        evs = case['events'] if case['kind'] == 'single' else sum(case['histories'].values(), [])
        return any(e[0] == 'E' for e in evs) and any(e[0] in ('R', 'A') for e in evs)

    def run_impl(self, case):
        fc = impl()['fc']
        if case['kind'] == 'single':
            r = Runner(case['events'], fx=case.get('fx', False), jit=case.get('jit', False))

            def go():
                end = r.block(0)
                assert end == len(case['events']), 'unbalanced'
                return cfg_ids(fc.Config.instance())

            final = contextvars.Context().run(go)
            return {'obs': [o for _, o in r.obs], 'final': final}
        hist = {int(k): v for k, v in case['histories'].items()}
        gate = Gate(case['schedule'], hist, case.get('forks', {}))
        forked = {int(k) for k in case.get('forks', {})}
        for tid in hist:
            if tid not in forked:
                gate.start(tid)
        for th in list(gate.threads):
            th.join(30)
        for th in list(gate.threads):
            th.join(30)
        if gate.errors:
            return {'error': gate.errors}
        return {'obs': [[t, o] for t, o in gate.log]}

    def model_term(self, case):
        if case['kind'] == 'single':
            if case.get('fx'):
                tbl = clist(impl()['fails'], lambda so: f'({cz(so[0])}, {cz(so[1])})')
                return f'run_single_fx {tbl} ' + clist(case['events'], coq_event)
            return 'run_single ' + clist(case['events'], coq_event)
        # global: interleave per the schedule
        pos = {int(k): 0 for k in case['histories']}
        evs = []
        for t in case['schedule']:
            e = case['histories'][str(t)][pos[t]]
            pos[t] += 1
            if e[0] == 'F':
                evs.append(f'Fork {t}%nat {e[1]}%nat')
            else:
                evs.append(f'Ev {t}%nat ({coq_event(e)})')
        return 'run_global ' + clist(evs)

    def decode(self, case, v):
        if case['kind'] == 'single':
            obs, final = v
            if case.get('fx'):
                out = []
                for e, (cfg, (main, sing)) in zip(case['events'], obs):
                    if cfg == []:
                        out.append(None)
                    elif e[0] == 'A':
                        out.append({
                            'cfg': cfg,
                            'main': ['ret'] + list(main) if main else ['raised'],
                            'sing': ['ret', sing[2]] if sing else ['raised'],
                        })  # fmt: skip
                    else:
                        out.append(cfg)
                return {'obs': out, 'final': final}
            return {'obs': [o if o != [] else None for o in obs], 'final': final}
        return {'obs': [[t, (o if o != [] else None)] for t, o in v]}

    def comparable(self, case, obs):
        if not isinstance(obs, dict) or 'obs' not in obs:
            return obs
        if case['kind'] == 'single':
            # the model prints None for events without observation and [] for an unknown inverse
            return {'obs': [None if o in (None, []) else o for o in obs['obs']], 'final': obs['final']}
        out = []
        for t, o in obs['obs']:
            if o == 'fork':
                continue
            out.append([t, None if o in (None, []) else o])
        return {'obs': out}

    def oracle(self, case, obs):
        if 'error' in obs:
            return f'threads failed: {obs["error"]}'
        if case['kind'] == 'single':
            fx = case.get('fx', False)
            exp, final = lib.canon(reference(case['events'], fx=fx))
            got = obs['obs']
            if got != exp:
                i = next(i for i, (a, b) in enumerate(zip(got, exp)) if a != b)
                msg = f'event {i} {case["events"][i]} observed {got[i]} expected {exp[i]}'
                if fx and isinstance(got[i], dict):
                    cap, act = next((c, a) for j, c, a in applications(case['events']) if j == i)
                    names = [FIELD[f] for f in SETTINGS]
                    msg += f' [{LEGEND}]'
                    msg += f'; the inverse was created under {dict(zip(names, cap))} and applied under {dict(zip(names, act))}'
                    if got[i].get('cfg') == cap:
                        eff = {k: got[i].get(k) for k in ('main', 'sing')}
                        why = [sub for sub, h in hybrids(cap, act) if lib.canon(expected_effect(h)) == eff]
                        if why:
                            msg += (f': op.I(y) [main: A x = y, sing: singular Z x = y] behaves as if {[FIELD[f] for f in why[0]]} '
                                    'were taken from the configuration active at APPLICATION time')  # fmt: skip
                        else:
                            msg += ': the effect of op.I(y) is not that of the captured configuration (whose fields are stored intact)'
                return msg
            if obs['final'] != [0, 0, 0, 0]:
                return f'configuration after the history is {obs["final"]}, not the defaults'
            return None
        # threads: each thread's observations equal those of its history alone
        starts = {}
        per = {}
        for t, o in obs['obs']:
            per.setdefault(t, []).append(o)
        # a forked context starts from the parent's configuration at the fork
        for child, parent in case.get('forks', {}).items():
            h = case['histories'][str(parent)]
            k = next(i for i, e in enumerate(h) if e[0] == 'F' and e[1] == int(child))
            # configuration of the parent just before the fork: replay the prefix (it may be unbalanced)
            cur, stack = [0, 0, 0, 0], []
            for e in h[:k]:
                if e[0] == 'E':
                    stack.append(list(cur))
                    for kk, v in e[1].items():
                        cur[SETTINGS.index(kk)] = v
                elif e[0] in ('X', 'XE'):
                    cur = stack.pop()
            starts[int(child)] = cur
        for t, h in case['histories'].items():
            exp, _ = reference(h, starts.get(int(t)))
            if per.get(int(t), []) != exp:
                return f'thread {t} observed {per.get(int(t))} but alone it observes {exp}'
        return None
