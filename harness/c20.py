"""C20 - Stokes containers and pytree helpers act leaf-wise and consistently.

Real code: furax.landscapes.StokesPyTree and its four subclasses (dunders, __getitem__, ravel, reshape,
class_for, structure_for, from_stokes, from_iquv, zeros/ones/full/normal/uniform) and furax.tree
(is_leaf, dot, as_promoted_dtype, as_structure, full_like/zeros_like/ones_like, normal_like, uniform_like).
Model: coq/theories/Model/StokesTree.v.  Oracle (independent of the model): per-component exact
arithmetic on NumPy object arrays of Fractions, dtypes from the leaf operation done directly with JAX.

One JSON description of every value / container / tree is printed twice: as a Python object (`py_*`)
and as a Coq term (`coq_*`).  Cases with x64 different from the driver's mode run in a worker
subprocess (`python c20.py --worker`, JAX_ENABLE_X64 set accordingly).
"""
from __future__ import annotations

import atexit
import itertools
import json
import operator
import os
import subprocess
import sys
from fractions import Fraction
from pathlib import Path

sys.path.insert(0, str(Path(__file__).parent))

import lib  # noqa: E402
from lib import PropertyCheck, cbool, clist, cstr, cz  # noqa: E402

# the final model follows the fixed code (fixes/C20-as-promoted-dtype-empty.diff): a tree without
# leaves is returned unchanged by as_promoted_dtype.  False reproduces the pinned behaviour.
EMPTY_OK = True

KINDS = ['I', 'QU', 'IQU', 'IQUV']
COQ_KIND = {'I': 'SI', 'QU': 'SQU', 'IQU': 'SIQU', 'IQUV': 'SIQUV'}
KIND_OF_COQ = {v: k for k, v in COQ_KIND.items()}
DTS = ['b', 'i32', 'i64', 'f16', 'bf16', 'f32', 'f64', 'c64', 'c128']
COQ_DT = {'b': 'DBool', 'i32': 'DI32', 'i64': 'DI64', 'f16': 'DF16', 'bf16': 'DBF16', 'f32': 'DF32',
          'f64': 'DF64', 'c64': 'DC64', 'c128': 'DC128'}  # fmt: skip
DT_OF_COQ = {v: k for k, v in COQ_DT.items()}
NP_NAME = {'b': 'bool', 'i32': 'int32', 'i64': 'int64', 'f16': 'float16', 'bf16': 'bfloat16', 'f32': 'float32',
           'f64': 'float64', 'c64': 'complex64', 'c128': 'complex128'}  # fmt: skip
DT_OF_NP = {v: k for k, v in NP_NAME.items()}
NODES = ['b', 'i*', 'i32', 'i64', 'f*', 'f16', 'bf16', 'f32', 'f64', 'c*', 'c64', 'c128']
OPS = ['add', 'sub', 'mul', 'div', 'pow']
COQ_OP = {'add': 'Add', 'sub': 'Sub', 'mul': 'Mul', 'div': 'Div', 'pow': 'Pow'}
PY_OP = {'add': operator.add, 'sub': operator.sub, 'mul': operator.mul, 'div': operator.truediv, 'pow': operator.pow}
PRIMES = [p for p in range(2, 600) if all(p % q for q in range(2, int(p**0.5) + 1))]
MANT = {'f16': 11, 'bf16': 8, 'f32': 24, 'f64': 53}
ERRORS = (TypeError, ValueError, AttributeError, IndexError, KeyError)


def x64_mode() -> bool:
    import jax

    return bool(jax.config.jax_enable_x64)


def canon_dt(dt: str, x64: bool) -> str:
    return dt if x64 else {'i64': 'i32', 'f64': 'f32', 'c128': 'c64'}.get(dt, dt)


def prod(shape) -> int:
    n = 1
    for s in shape:
        n *= s
    return n


def frac(x) -> Fraction:
    if isinstance(x, (list, tuple)):
        return Fraction(x[0], x[1])
    return Fraction(x)


def round_to(fr: Fraction, dt: str) -> Fraction:
    """Round an exact rational to the nearest value of a floating dtype (ties to even; normal range)."""
    p = MANT.get(dt)
    if p is None or fr == 0:
        return fr
    sign = -1 if fr < 0 else 1
    a = abs(fr)
    e = a.numerator.bit_length() - a.denominator.bit_length()
    if Fraction(2) ** e > a:
        e -= 1
    scale = Fraction(2) ** (e - p + 1)  # 2^e <= a < 2^(e+1); one unit in the last place
    q = a / scale
    n = q.numerator // q.denominator
    rem = q - n
    if rem > Fraction(1, 2) or (rem == Fraction(1, 2) and n % 2 == 1):
        n += 1
    return sign * n * scale


# ----------------------------------------------------------------------------------------------
# one description, two printers: values


def arr(shape, dt, data, weak=False, form='jax'):
    return {'t': 'arr', 'shape': list(shape), 'dt': dt, 'weak': bool(weak), 'data': list(data), 'form': form}


def sds(shape, dt, weak=False):
    return {'t': 'sds', 'shape': list(shape), 'dt': dt, 'weak': bool(weak)}


def eff_ty(v, x64: bool, numpy_left=False):
    """(dtype, weak) the JAX leaf operation sees for a value description."""
    form = v.get('form', 'jax')
    dt = v['dt']
    if form == 'py' or (form in ('np', 'np0d') and numpy_left):
        # a NumPy scalar on the LEFT of a container reaches __r<op>__ unwrapped to a Python scalar
        # (NumPy's object-dtype ufunc loop); recorded in the report as a boundary
        base = 'i64' if dt in ('i32', 'i64') else 'f64' if dt in ('f16', 'bf16', 'f32', 'f64') else 'c128'
        return canon_dt(base, x64), True
    return canon_dt(dt, x64), bool(v.get('weak', False))


def py_scalar(dt, x):
    if dt in ('i32', 'i64'):
        return int(frac(x))
    if dt in ('c64', 'c128'):
        return complex(x[0], x[1]) if isinstance(x, (list, tuple)) else complex(x)
    if dt == 'b':
        return bool(x)
    return float(frac(x))


def py_val(v, gauss=False):
    """The Python object of a value description."""
    import jax
    import jax.numpy as jnp
    import numpy as np

    t = v['t']
    if t == 'str':
        return 'a'
    if t == 'sds':
        if v.get('weak'):
            return jax.ShapeDtypeStruct(tuple(v['shape']), NP_NAME[v['dt']], weak_type=True)
        return jax.ShapeDtypeStruct(tuple(v['shape']), jnp.dtype(NP_NAME[v['dt']]))
    form = v.get('form', 'jax')
    dt = v['dt']
    if gauss:
        data = [complex(x[0], x[1]) if dt in ('c64', 'c128') else py_scalar(dt, x[0]) for x in v['data']]
    else:
        data = [py_scalar(dt, x) for x in v['data']]
    if form == 'py':
        return data[0]
    if form == 'np':
        return np.dtype(NP_NAME[dt]).type(data[0])
    if form == 'np0d':
        return np.array(data[0], dtype=NP_NAME[dt])
    if v.get('weak'):
        base = jnp.asarray(data[0])  # weak 0-d array from a Python scalar
        return jnp.broadcast_to(base, tuple(v['shape'])) if v['shape'] else base
    return jnp.array(np.array(data, dtype=object).reshape(v['shape']).tolist() if v['shape'] else data[0], dtype=NP_NAME[dt])


def coq_q(x) -> str:
    fr = frac(x)
    return f'(({fr.numerator}) # {fr.denominator})'


def coq_gz(x) -> str:
    return f'(({int(x[0])})%Z, ({int(x[1])})%Z)'


def coq_ty(dt, weak) -> str:
    return f'(mkTy {COQ_DT[dt]} {cbool(weak)})'


NO_SHAPE = False  # set while printing trees for helpers that read leaf.shape (Python scalars have none)


def coq_val(v, x64, numpy_left=False, gauss=False) -> str:
    t = v['t']
    if t == 'str' or (NO_SHAPE and v.get('form') == 'py'):
        return 'VBad'
    if t == 'sds':
        return f'(VSds {clist(v["shape"])} {COQ_DT[v["dt"]]} {cbool(v.get("weak", False))})'
    dt, weak = eff_ty(v, x64, numpy_left)
    data = clist(v['data'], coq_gz if gauss else coq_q)
    return f'(VArr (mkArr {clist(v["shape"])} {coq_ty(dt, weak)} {data}))'


def enc_leaf(x, gauss=False):
    """Observation of a leaf produced by the real code."""
    import jax
    import numpy as np

    if isinstance(x, jax.ShapeDtypeStruct):
        return {'sds': True, 'shape': list(x.shape), 'dt': DT_OF_NP[str(x.dtype)], 'weak': bool(getattr(x, 'weak_type', False))}
    if not isinstance(x, jax.Array):
        return {'py': type(x).__name__, 'repr': repr(x)[:40]}
    dt = DT_OF_NP[str(x.dtype)]
    a = np.asarray(x)
    if dt in ('c64', 'c128'):
        flat = a.astype(np.complex128).ravel()
        data = [[Fraction(float(z.real)), Fraction(float(z.imag))] for z in flat]
        if not gauss:
            data = [d[0] if d[1] == 0 else d for d in data]
    elif dt in ('i32', 'i64', 'b'):
        data = [int(z) for z in a.ravel()]
    else:
        data = [Fraction(float(z)) for z in a.astype(np.float64).ravel()]
    if gauss:
        data = [d if isinstance(d, list) else [d, 0] for d in data]
    return {'shape': list(a.shape), 'dt': dt, 'weak': bool(x.weak_type), 'data': data}


def dec_ty(t):
    name, args = lib.coqparse.ctor(t)
    assert name == 'mkTy', t
    return DT_OF_COQ[args[0]['c']], bool(args[1])


def dec_val(v, gauss=False):
    name, args = lib.coqparse.ctor(v)
    if name == 'VArr':
        n2, a = lib.coqparse.ctor(args[0])
        dt, weak = dec_ty(a[1])
        if gauss:
            data = [[Fraction(p[0]), Fraction(p[1])] for p in a[2]]
        else:
            data = [round_to(Fraction(q[0], q[1]), dt) for q in a[2]]
            if dt == 'b':
                data = [1 if q != 0 else 0 for q in data]
        return {'shape': a[0], 'dt': dt, 'weak': weak, 'data': data}
    if name == 'VSds':
        return {'sds': True, 'shape': args[0], 'dt': DT_OF_COQ[args[1]['c']], 'weak': bool(args[2])}
    if name == 'VBad':
        return {'py': 'str'}
    raise ValueError(f'unexpected model value {v!r}')


def dec_res(v, f):
    name, args = lib.coqparse.ctor(v)
    if name == 'Ok':
        return {'ok': f(args[0])}
    if name == 'Err':
        return {'err': args[0]['c']}
    if name == 'NotImpl':
        return {'err': 'NotImplemented'}
    raise ValueError(f'unexpected model result {v!r}')


# ---- containers ------------------------------------------------------------------------------


def stokes_cls(kind):
    from furax.landscapes import StokesPyTree

    return StokesPyTree.class_for(kind)


def py_stokes(s, gauss=False):
    return stokes_cls(s['kind'])(*[py_val(c, gauss) for c in s['comps']])


def coq_stokes(s, x64, gauss=False) -> str:
    return f'(mkS {COQ_KIND[s["kind"]]} {clist(s["comps"], lambda c: coq_val(c, x64, gauss=gauss))})'


def enc_stokes(s, gauss=False):
    from furax.landscapes import StokesPyTree

    if not isinstance(s, StokesPyTree):
        return {'notstokes': type(s).__name__}
    return {'kind': s.stokes, 'comps': [enc_leaf(getattr(s, c.lower()), gauss) for c in s.stokes]}


def dec_stokes(v, gauss=False, leaf=None):
    name, args = lib.coqparse.ctor(v)
    assert name == 'mkS', v
    return {'kind': KIND_OF_COQ[args[0]['c']], 'comps': [(leaf or (lambda x: dec_val(x, gauss)))(c) for c in args[1]]}


def py_operand(o, gauss=False):
    if o['o'] == 'stokes':
        return py_stokes(o, gauss)
    if o['o'] == 'val':
        return py_val(o['v'], gauss)
    return {'none': None, 'list': [1, 2], 'dict': {'a': 1}, 'tuple': (1.0,)}[o['what']]


def coq_operand(o, x64, numpy_left=False, gauss=False) -> str:
    if o['o'] == 'stokes':
        return f'(OS {coq_stokes(o, x64, gauss)})'
    if o['o'] == 'val':
        return f'(OV {coq_val(o["v"], x64, numpy_left, gauss)})'
    return 'OX'


# ---- indices ---------------------------------------------------------------------------------
# one description of an index expression, three printers: the object handed to the real code
# (entries in their Python / NumPy / JAX form), the NumPy reference index, the Coq term.
#   {'tuple': bool, 'es': [entry...]}; entry = ['int', i, form] | ['slice', lo, hi, step] | ['ellipsis'] |
#   ['none'] | ['iarr', shape, data, form] | ['mask', shape, 0/1 data, form] | ['bool', b]


def e_int(i, form='py'):
    return ['int', int(i), form]


def e_sl(lo=None, hi=None, st=None):
    return ['slice', lo, hi, st]


ELL = ['ellipsis']
NEW = ['none']
FULL = ['slice', None, None, None]


def e_arr(shape, data, form='jnp'):
    assert prod(shape) == len(data)
    return ['iarr', list(shape), [int(x) for x in data], form]


def e_mask(shape, data, form='jnp'):
    assert prod(shape) == len(data) and len(shape) >= 0
    return ['mask', list(shape), [int(bool(x)) for x in data], form]


def index_desc(es, tup=True):
    es = [list(e) for e in es]
    if not tup:
        assert len(es) == 1
    return {'tuple': bool(tup), 'es': es}


def py_index(ixd, reference=False):
    """The index object; reference=True: the plain NumPy spelling used by the oracle."""
    import jax.numpy as jnp
    import numpy as np

    def ent(e):
        t = e[0]
        if t == 'int':
            form = 'py' if reference else e[2]
            return e[1] if form == 'py' else np.int64(e[1]) if form == 'np' else jnp.array(e[1], dtype=jnp.int32)
        if t == 'slice':
            return slice(e[1], e[2], e[3])
        if t == 'ellipsis':
            return Ellipsis
        if t == 'none':
            return None
        if t == 'bool':
            return bool(e[1])
        form = 'np' if reference else e[3]
        if t == 'iarr':
            a = np.array(e[2], dtype=np.int64).reshape(e[1])
            return a if form == 'np' else jnp.asarray(a, dtype=jnp.int32)
        if t == 'mask':
            a = np.array(e[2], dtype=bool).reshape(e[1])
            return a if form == 'np' else jnp.asarray(a)
        raise ValueError(t)

    es = [ent(e) for e in ixd['es']]
    return tuple(es) if ixd['tuple'] else es[0]


def coq_index(ixd) -> str:
    z = lambda v: f'({int(v)})%Z'  # noqa: E731

    def ent(e):
        t = e[0]
        if t == 'int':
            return f'(EInt {z(e[1])})'
        if t == 'slice':
            return f'(ESlice {lib.copt(e[1], z)} {lib.copt(e[2], z)} {z(1 if e[3] is None else e[3])})'
        if t == 'ellipsis':
            return 'EEllipsis'
        if t == 'none':
            return 'ENew'
        if t == 'iarr':
            return f'(EIArr {clist(e[1])} {clist(e[2], z)})'
        if t == 'mask':
            return f'(EMask {clist(e[1])} {clist(e[2], cbool)})'
        raise ValueError(t)

    return clist(ixd['es'], ent)


def index_modelled(ixd) -> bool:
    """Rank-0 masks (Python bools, 0-d boolean arrays) are outside the Coq model: oracle only."""
    return not any(e[0] == 'bool' or (e[0] == 'mask' and not e[1]) for e in ixd['es'])


def show_index(ixd) -> str:
    def ent(e):
        t = e[0]
        if t == 'int':
            return str(e[1]) + ('' if e[2] == 'py' else f'<{e[2]}>')
        if t == 'slice':
            return ':'.join('' if v is None else str(v) for v in e[1:4])
        if t == 'ellipsis':
            return '...'
        if t == 'none':
            return 'None'
        if t == 'bool':
            return str(bool(e[1]))
        return f'{t}{tuple(e[1])}{e[2]}<{e[3]}>'

    body = ', '.join(ent(e) for e in ixd['es'])
    return f'[({body}{"," if len(ixd["es"]) == 1 else ""})]' if ixd['tuple'] else f'[{body}]'


# ---- trees -----------------------------------------------------------------------------------


def py_tree(t, gauss=False):
    if 'leaf' in t:
        return py_val(t['leaf'], gauss)
    n = t['n']
    cs = [py_tree(c, gauss) for c in t['cs']]
    if n == 'list':
        return cs
    if n == 'tuple':
        return tuple(cs)
    if n == 'dict':
        return dict(zip(t['keys'], cs))
    if n == 'none':
        return None
    if n == 'stokes':
        return stokes_cls(KINDS[len(cs) - 1])(*cs)
    raise ValueError(n)


def coq_kind_of_node(t) -> str:
    n = t['n']
    if n == 'list':
        return 'KList'
    if n == 'tuple':
        return 'KTuple'
    if n == 'dict':
        return f'(KDict {clist(sorted(t["keys"]), cstr)})'
    if n == 'none':
        return '(KOther "None"%string)'
    if n == 'stokes':
        return f'(KStokes {len(t["cs"])})'
    raise ValueError(n)


def coq_tree(t, x64, gauss=False, E='Q') -> str:
    if 'leaf' in t:
        return f'(Leaf {coq_val(t["leaf"], x64, gauss=gauss)})'
    cs = t['cs']
    if t['n'] == 'dict':  # jax flattens dicts in sorted-key order
        cs = [c for _, c in sorted(zip(t['keys'], cs), key=lambda p: p[0])]
    ty = f'(pt (val {E}))'
    return f'(Node {coq_kind_of_node(t)} ({clist(cs, lambda c: coq_tree(c, x64, gauss, E))} : list {ty}))'


def enc_tree(x, leaf=enc_leaf):
    from furax.landscapes import StokesPyTree

    if isinstance(x, list):
        return {'n': 'KList', 'cs': [enc_tree(c, leaf) for c in x]}
    if isinstance(x, tuple):
        return {'n': 'KTuple', 'cs': [enc_tree(c, leaf) for c in x]}
    if isinstance(x, dict):
        ks = sorted(x)
        return {'n': 'KDict', 'keys': ks, 'cs': [enc_tree(x[k], leaf) for k in ks]}
    if x is None:
        return {'n': 'KOther', 'keys': 'None', 'cs': []}
    if isinstance(x, StokesPyTree):
        return {'n': 'KStokes', 'keys': len(x.stokes), 'cs': [enc_tree(getattr(x, c.lower()), leaf) for c in x.stokes]}
    return {'leaf': leaf(x)}


def dec_tree(v, leaf=dec_val):
    name, args = lib.coqparse.ctor(v)
    if name == 'Leaf':
        return {'leaf': leaf(args[0])}
    assert name == 'Node', v
    k, kargs = lib.coqparse.ctor(args[0])
    out = {'n': k, 'cs': [dec_tree(c, leaf) for c in args[1]]}
    if kargs:
        out['keys'] = kargs[0]
    return out


# ----------------------------------------------------------------------------------------------
# the real code


def outcome(f):
    try:
        return {'ok': f()}
    except ERRORS as e:
        return {'err': type(e).__name__}


def node_rep(n, scalar):
    """A JAX operand whose promotion-lattice node is n: a (2,) array or a 0-d value."""
    import jax.numpy as jnp

    py = {'i*': 2, 'f*': 2.0, 'c*': 2 + 0j}
    if n in py:
        return py[n] if scalar else jnp.broadcast_to(jnp.asarray(py[n]), (2,))
    v = True if n == 'b' else 2
    return jnp.array(v if scalar else [v, v], dtype=NP_NAME[n])


def short_ty(d, w):
    return [DT_OF_NP[str(d)], bool(w)]


def impl_dtable(case):
    import jax
    import jax.numpy as jnp

    rt = []
    for a in NODES:
        row = []
        for b in NODES:
            d, w = jax.dtypes.result_type(node_rep(a, True), node_rep(b, True), return_weak_type_flag=True)
            d2 = jnp.result_type(node_rep(a, False), node_rep(b, False))
            row.append(short_ty(d, w) + [DT_OF_NP[str(d2)]])
        rt.append(row)
    ops = {}
    for scalar in (False, True):
        for o in OPS if not scalar else ['div', 'pow']:
            tab = []
            for a in NODES:
                row = []
                for b in NODES:
                    if 'b' in (a, b):
                        row.append(None)
                        continue
                    A, B = node_rep(a, scalar), node_rep(b, scalar)
                    if not hasattr(A, 'dtype') and not hasattr(B, 'dtype'):
                        A = jnp.asarray(A)
                    r = PY_OP[o](A, B)
                    row.append(short_ty(r.dtype, r.weak_type))
                tab.append(row)
            ops[f'{o}/{"scalar" if scalar else "vector"}'] = tab
    triples = []
    for a in NODES:
        pl = []
        for b in NODES:
            row = []
            for c in NODES:
                d, w = jax.dtypes.result_type(node_rep(a, True), node_rep(b, True), node_rep(c, True), return_weak_type_flag=True)
                row.append(short_ty(d, w))
            pl.append(row)
        triples.append(pl)
    return {'rt': rt, 'ops': ops, 'triples': triples}


def impl_case(case):
    import warnings

    assert x64_mode() == bool(case.get('x64', False)), 'x64 mode mismatch'
    with warnings.catch_warnings():
        warnings.simplefilter('ignore')
        return _impl_case(case)


def _impl_case(case):
    import jax
    import jax.numpy as jnp
    import numpy as np

    import furax.tree as ft
    from furax.landscapes import StokesPyTree

    kind = case['kind']
    if kind == 'dtable':
        return impl_dtable(case)
    if kind == 'binop':
        l, r = py_operand(case['l']), py_operand(case['r'])
        res = outcome(lambda: enc_stokes(PY_OP[case['op']](l, r)))
        res['ref'] = direct_ref(case, l, r)
        return res
    if kind == 'rawop':
        # _operation/_roperation called directly with a recording (non-numeric) leaf function
        s = py_stokes(case['s'])
        other = py_operand(case['other'])
        log = []

        def rec(x, y):
            log.append([tag_of(x, case), tag_of(y, case)])
            return x

        meth = s._operation if case['fwd'] else s._roperation
        res = outcome(lambda: meth(rec, other))
        if 'ok' in res:
            res = {'ok': 'NotImplemented' if res['ok'] is NotImplemented else res['ok'].stokes, 'calls': log}
        return res
    if kind == 'unary':
        s = py_stokes(case['s'])
        if case['op'] == 'pos':
            return {'ok': enc_stokes(+s), 'same_object': (+s) is s}
        return outcome(lambda: enc_stokes({'neg': operator.neg, 'abs': operator.abs}[case['op']](s)))
    if kind == 'matmul':
        l, r = py_operand(case['l'], True), py_operand(case['r'], True)
        return outcome(lambda: enc_leaf(operator.matmul(l, r), True))
    if kind == 'getitem':
        s = py_stokes(case['s'])
        ix = case['index']
        if ix[0] == 'int':
            index = ix[1]
        elif ix[0] == 'slice':
            index = slice(ix[1], ix[2])
        else:
            index = jnp.array(ix[1], dtype=jnp.int32)
        return outcome(lambda: enc_stokes(s[index]))
    if kind == 'index':
        s = py_stokes(case['s'])
        index = py_index(case['index'])
        return outcome(lambda: enc_stokes(s[index]))
    if kind == 'ravel':
        s = py_stokes(case['s'])
        return outcome(lambda: enc_stokes(s.ravel()))
    if kind == 'reshape':
        s = py_stokes(case['s'])
        return outcome(lambda: enc_stokes(s.reshape(reshape_arg(case))))
    if kind == 'class_for':
        return outcome(lambda: StokesPyTree.class_for(case['name']).stokes)
    if kind == 'factory':
        cls = stokes_cls(case['stokes'])
        shape = tuple(case['shape'])
        dt = case.get('dt')
        dtype = {'pyfloat': float, 'pyint': int, 'pycomplex': complex}.get(dt) or (np.dtype(NP_NAME[dt]).type if dt in ('f32', 'f64', 'i32', 'i64') else NP_NAME.get(dt))
        args = () if dt is None else (dtype,)
        which = case['which']
        if which == 'structure_for':
            return outcome(lambda: enc_stokes(cls.structure_for(shape, *args)))
        if which in ('zeros', 'ones'):
            return outcome(lambda: enc_stokes(getattr(cls, which)(shape, *args)))
        if which == 'full':
            return outcome(lambda: enc_stokes(cls.full(shape, py_scalar('f64', case['fill']), *args)))
        key = jax.random.PRNGKey(case['seed'])
        keys = jax.random.split(key, len(case['stokes']))

        def enc_random(x):
            obs = enc_leaf(x)
            del obs['data'], obs['weak']
            obs['key'] = -1
            for j, k in enumerate(keys):
                if which == 'normal':
                    ref = jax.random.normal(k, x.shape, x.dtype)
                else:
                    ref = jax.random.uniform(k, x.shape, x.dtype, *case.get('range', [0.0, 1.0]))
                if np.array_equal(np.asarray(ref), np.asarray(x)):
                    obs['key'] = j
                    break
            if which == 'uniform':
                lo, hi = case.get('range', [0.0, 1.0])
                obs['in_range'] = bool(np.all((np.asarray(x) >= lo) & (np.asarray(x) <= hi)))
            return obs

        def run():
            if which == 'normal':
                s = cls.normal(key, shape, *args)
            else:
                s = cls.uniform(shape, key, *(args or (float,)), *case.get('range', []))
            return {'kind': s.stokes, 'comps': [enc_random(getattr(s, c.lower())) for c in s.stokes]}

        return outcome(run)
    if kind == 'from_stokes':
        args = [py_val(v) for v in case['args']]
        kw = {k: py_val(v) for k, v in case['kw']}
        res = outcome(lambda: enc_stokes(StokesPyTree.from_stokes(*args, **kw)))
        res['ref'] = outcome(lambda: DT_OF_NP[str(jnp.result_type(*(args or [kw[k] for k in sorted(kw)])))])
        return res
    if kind == 'from_iquv':
        args = [py_val(v) for v in case['args']]
        return outcome(lambda: enc_stokes(stokes_cls(case['stokes']).from_iquv(*args)))
    if kind == 'dot':
        x, y = py_tree(case['x'], True), py_tree(case['y'], True)
        return outcome(lambda: enc_leaf(ft.dot(x, y), True))
    if kind == 'helper':
        t = py_tree(case['tree'])
        which = case['which']
        if which == 'is_leaf':
            return {'ok': bool(ft.is_leaf(t))}
        if which == 'promoted':
            res = outcome(lambda: enc_tree(ft.as_promoted_dtype(t)))
            res['ref'] = outcome(lambda: DT_OF_NP[str(jnp.result_type(*jax.tree.leaves(t)))])
            return res
        if which == 'structure':
            return outcome(lambda: enc_tree(ft.as_structure(t)))
        if which == 'full_like':
            return outcome(lambda: enc_tree(ft.full_like(t, py_scalar('f64', case['fill']))))
        if which == 'zeros_like':
            return outcome(lambda: enc_tree(ft.zeros_like(t)))
        if which == 'ones_like':
            return outcome(lambda: enc_tree(ft.ones_like(t)))
        if which in ('normal_like', 'uniform_like'):
            key = jax.random.PRNGKey(case['seed'])
            n = len(jax.tree.leaves(t))
            keys = jax.random.split(key, n) if n else []

            def enc_random(x):
                obs = enc_leaf(x)
                obs = {'shape': obs['shape'], 'dt': obs['dt'], 'key': -1}
                for j, k in enumerate(keys):
                    ref = jax.random.normal(k, x.shape, x.dtype) if which == 'normal_like' else jax.random.uniform(k, x.shape, x.dtype)
                    if np.array_equal(np.asarray(ref), np.asarray(x)):
                        obs['key'] = j
                        break
                return obs

            f = ft.normal_like if which == 'normal_like' else ft.uniform_like
            return outcome(lambda: enc_tree(f(t, key), enc_random))
    raise ValueError(kind)


def reshape_arg(case):
    """The shape argument in the spelling of the case: tuple (default), list, bare int, tuple of NumPy ints."""
    import numpy as np

    new, form = case['new'], case.get('form', 'tuple')
    if form == 'int':
        return int(new[0])
    if form == 'list':
        return list(new)
    if form == 'npint':
        return tuple(np.int64(v) for v in new)
    return tuple(new)


def direct_ref(case, l, r):
    """[dtype, weak] of the leaf operation done directly with JAX on every pair of components
    (a NumPy scalar on the left is taken as the Python scalar NumPy hands to __r<op>__)."""
    import numpy as np

    from furax.landscapes import StokesPyTree

    def leaves(x, n):
        if isinstance(x, StokesPyTree):
            return [getattr(x, c.lower()) for c in x.stokes]
        return [x] * n

    n = len(l.stokes) if isinstance(l, StokesPyTree) else len(r.stokes) if isinstance(r, StokesPyTree) else 0
    if isinstance(l, (np.generic, np.ndarray)):
        l = l.item()
    out = []
    for a, b in zip(leaves(l, n), leaves(r, n)):
        try:
            v = PY_OP[case['op']](a, b)
            out.append([DT_OF_NP[str(v.dtype)], bool(v.weak_type)])
        except Exception as e:
            out.append(type(e).__name__)
    return out


def tag_of(x, case):
    """Identify a leaf object by its first element (all leaves of a rawop case differ there)."""
    import numpy as np

    if isinstance(x, str):
        return 'str'
    return int(np.asarray(x).ravel()[0])


# ----------------------------------------------------------------------------------------------
# worker processes (one per x64 mode that differs from the driver's)


def worker_main():
    out = sys.stdout
    sys.stdout = sys.stderr
    for line in sys.stdin:
        req = json.loads(line)
        try:
            res = {'ok': lib.canon(impl_case(req['case']))}
        except Exception as e:
            import traceback

            res = {'err': f'{type(e).__name__}: {e}', 'tb': traceback.format_exc()[-1500:]}
        out.write(json.dumps(res) + '\n')
        out.flush()


_workers: dict = {}


def worker(x64: bool):
    if x64 not in _workers:
        env = dict(os.environ)
        env['JAX_ENABLE_X64'] = '1' if x64 else '0'
        env['PYTHONPATH'] = str(lib.REPO / 'src')
        env['JAX_PLATFORMS'] = 'cpu'
        p = subprocess.Popen(
            [sys.executable, str(Path(__file__).resolve()), '--worker'],
            stdin=subprocess.PIPE, stdout=subprocess.PIPE, stderr=subprocess.DEVNULL, text=True, env=env,
        )  # fmt: skip
        _workers[x64] = p
        atexit.register(p.kill)
    return _workers[x64]


def ask(x64: bool, case: dict):
    p = worker(x64)
    p.stdin.write(json.dumps({'case': case}) + '\n')
    p.stdin.flush()
    line = p.stdout.readline()
    if not line:
        raise RuntimeError('x64 worker died')
    res = json.loads(line)
    if 'err' in res:
        raise RuntimeError(res['err'] + '\n' + res.get('tb', ''))
    return res['ok']


# ----------------------------------------------------------------------------------------------
# case generators

SHAPES = [[], [3], [2, 2]]
DTCFG = ['f32', 'f64', 'i32', 'mixed']
MIXED = ['i32', 'f32', 'f64', 'f32']
SMALL = [2, 3, 5, 7]


def comp_dts(cfg, n):
    return [MIXED[c] if cfg == 'mixed' else cfg for c in range(n)]


def stokes_desc(kind, shape, cfg, offset=0, small=None):
    """Distinct prime-valued components (for pow: small primes, a different pattern per component)."""
    n, size = len(kind), prod(shape)
    comps = []
    for c, dt in enumerate(comp_dts(cfg, n)):
        if small is None:
            data = [PRIMES[offset + c * size + j] for j in range(size)]
        elif small < 0:  # division: distinct powers of two, so that every quotient is exact in both orders
            data = [2 ** ((offset + (c * size + j) * (-small)) % 29 + 1) for j in range(size)]
        else:
            data = [SMALL[(small * (c + 1) + j + small) % 4] for j in range(size)]
        comps.append(arr(shape, dt, data))
    return {'o': 'stokes', 'kind': kind, 'comps': comps}


def val(v):
    return {'o': 'val', 'v': v}


def other_forms(kind, shape, cfg, pow_):
    """(name, operand description) for everything a container of this kind/shape can meet."""
    size = prod(shape)
    off = 20
    div_ = pow_ == 'div'
    pow_ = pow_ is True
    sm = 3 if pow_ else -7 if div_ else None
    k = 3 if pow_ else 8 if div_ else 11  # scalar operand value
    alt = {'f32': 'i32', 'f64': 'f32', 'i32': 'f32', 'mixed': 'f64'}[cfg]
    forms = [
        ('same', stokes_desc(kind, shape, cfg, off, sm)),
        ('same-other-dtype', stokes_desc(kind, shape, alt, off, sm)),
        ('same-broadcast', stokes_desc(kind, [] if shape else [2], cfg, off, sm)),
        ('other-kind', stokes_desc(KINDS[(KINDS.index(kind) + 1) % 4], shape, cfg, off, sm)),
        ('py-int', val(arr([], 'i64', [k], True, 'py'))),
        ('py-float', val(arr([], 'f64', [k], True, 'py'))),
        ('np-f32', val(arr([], 'f32', [k], False, 'np'))),
        ('np-f64', val(arr([], 'f64', [k], False, 'np'))),
        ('np-i32', val(arr([], 'i32', [k], False, 'np'))),
        ('np-i64', val(arr([], 'i64', [k], False, 'np'))),
        ('np0d-f64', val(arr([], 'f64', [k], False, 'np0d'))),
        ('jax0d-weak-int', val(arr([], 'i64', [k], True))),
        ('jax0d-weak-float', val(arr([], 'f64', [k], True))),
        ('jax0d-f32', val(arr([], 'f32', [k]))),
        ('jax0d-i32', val(arr([], 'i32', [k]))),
        ('none', {'o': 'other', 'what': 'none'}),
        ('list', {'o': 'other', 'what': 'list'}),
        ('dict', {'o': 'other', 'what': 'dict'}),
    ]
    if shape:
        # jnp.isscalar('a') is True: the leaf operation decides (TypeError; a 0-d integer leaf times a str would
        # repeat the string - outside the property, not generated)
        forms.append(('str', val({'t': 'str'})))
        forms.append(('same-incompatible', stokes_desc(kind, [shape[0] + 2], cfg, off, sm)))
    bshapes = {0: [[2], [2, 1]], 1: [[3], [2, 1]], 2: [[2], [2, 1], [3, 1, 2]]}[len(shape)]
    for i, bs in enumerate(bshapes):
        n = prod(bs)
        data = [SMALL[(j + i) % 4] for j in range(n)] if pow_ else [2 ** (3 * j + i + 2) for j in range(n)] if div_ else [PRIMES[40 - j - i] for j in range(n)]
        forms.append((f'jax-array-{bs}', val(arr(bs, ['f32', 'i32'][i % 2], data))))
    if shape:
        forms.append(('jax-array-incompatible', val(arr([shape[-1] + 3], 'f32', [2] * (shape[-1] + 3)))))
    return forms


def binop_cases(combos, x64):
    out = []
    for kind, shape, cfg in combos:
        for op in OPS:
            pow_ = op == 'pow'
            s = stokes_desc(kind, shape, cfg, 0, 1 if pow_ else -1 if op == 'div' else None)
            for name, o in other_forms(kind, shape, cfg, 'div' if op == 'div' else pow_):
                for order in ('fwd', 'refl'):
                    l, r = (s, o) if order == 'fwd' else (o, s)
                    out.append({'kind': 'binop', 'x64': x64, 'op': op, 'l': l, 'r': r, 'form': name, 'order': order})
    return out


def leaf(v):
    return {'leaf': v}


def node(n, cs, keys=None):
    d = {'n': n, 'cs': cs}
    if keys is not None:
        d['keys'] = keys
    return d


def sample_trees():
    """Nested pytrees of arrays and ShapeDtypeStructs (values: small integers, exact in every dtype)."""
    a = lambda shape, dt, start=1, **kw: arr(shape, dt, [start + j for j in range(prod(shape))], **kw)  # noqa: E731
    return {
        'leaf-f16': leaf(a([2], 'f16')),
        'leaf-sds': leaf(sds([2, 3], 'i32')),
        'empty-list': node('list', []),
        'empty-dict': node('dict', [], []),
        'empty-tuple': node('tuple', []),
        'none': node('none', []),
        'nested-empty': node('list', [node('tuple', []), node('none', [])]),
        'list-f16-f32': node('list', [leaf(a([2], 'f16')), leaf(a([], 'f32', 3))]),
        'list-sds-f16-f32': node('list', [leaf(sds([2], 'f16')), leaf(sds([], 'f32'))]),
        'dict-unsorted': node('dict', [leaf(a([2], 'i32')), leaf(a([3], 'bf16', 2)), leaf(a([1], 'f16', 5))], ['b', 'c', 'a']),
        'mixed-sds-array': node('tuple', [leaf(sds([2], 'i32')), leaf(a([2], 'bf16')), node('dict', [leaf(a([], 'f16', form='np'))], ['a'])]),
        'deep': node('dict', [node('list', [leaf(a([2, 2], 'f32')), node('tuple', [leaf(a([], 'i32', 7)), node('none', [])])]), leaf(sds([3], 'f64'))], ['x', 'y']),
        'stokes-in-list': node('list', [node('stokes', [leaf(a([2], 'f32')), leaf(a([2], 'f64', 3))]), leaf(a([1], 'i64', 9))]),
        'weak-leaves': node('list', [leaf(arr([], 'i64', [4], True)), leaf(arr([], 'f64', [5], True))]),
        'py-scalars': node('list', [leaf(arr([], 'i64', [4], True, 'py')), leaf(arr([], 'f64', [5], True, 'py')), leaf(a([2], 'f16'))]),
        'weak-and-int': node('tuple', [leaf(arr([], 'f64', [5], True)), leaf(a([2], 'i32'))]),
        'complex': node('list', [leaf(a([2], 'c64')), leaf(a([2], 'f64'))]),
        'bools': node('list', [leaf(arr([2], 'b', [1, 0])), leaf(arr([1], 'b', [1]))]),
        'bool-int': node('list', [leaf(arr([2], 'b', [1, 0])), leaf(arr([], 'i64', [1], True))]),
        'i64-f16': node('dict', [leaf(a([2], 'i64')), leaf(a([2], 'f16'))], ['p', 'q']),
        'f16-bf16': node('tuple', [leaf(a([2], 'f16')), leaf(a([2], 'bf16'))]),
        'f64-c64': node('tuple', [leaf(a([2], 'f64')), leaf(a([2], 'c64'))]),
        'with-str': node('list', [leaf(a([2], 'f32')), leaf({'t': 'str'})]),
    }


def gleaf(shape, dt, data, **kw):
    return leaf(arr(shape, dt, data, **kw))


def dot_cases(x64):
    g = lambda *zs: [list(z) for z in zs]  # noqa: E731
    pairs = {
        'complex-1leaf': (gleaf([2], 'c64', g((1, 2), (0, 3))), gleaf([2], 'c64', g((5, 1), (7, -2)))),
        'complex-x-real-y': (gleaf([2], 'c64', g((2, 3), (5, -7))), gleaf([2], 'f32', g((11, 0), (13, 0)))),
        'real-x-complex-y': (gleaf([2], 'f32', g((11, 0), (13, 0))), gleaf([2], 'c64', g((2, 3), (5, -7)))),
        'dict-two-leaves': (
            node('dict', [gleaf([2], 'c64', g((1, 1), (2, -1))), gleaf([3], 'i32', g((2, 0), (3, 0), (5, 0)))], ['a', 'b']),
            node('dict', [gleaf([2], 'c64', g((3, 2), (0, 1))), gleaf([3], 'i32', g((7, 0), (11, 0), (13, 0)))], ['a', 'b']),
        ),
        'nested': (
            node('list', [gleaf([2, 2], 'f32', g((2, 0), (3, 0), (5, 0), (7, 0))), node('tuple', [gleaf([], 'c128', g((1, 4))), gleaf([1], 'f16', g((3, 0)))])]),
            node('list', [gleaf([4], 'f32', g((11, 0), (13, 0), (17, 0), (19, 0))), node('tuple', [gleaf([], 'c64', g((2, -3))), gleaf([1], 'bf16', g((5, 0)))])]),
        ),
        'stokes-iqu': (
            node('stokes', [gleaf([2], 'c64', g((1, 2), (3, -1))), gleaf([2], 'c64', g((0, 1), (2, 2))), gleaf([2], 'c64', g((5, 0), (0, -3)))]),
            node('stokes', [gleaf([2], 'c64', g((2, 1), (1, 1))), gleaf([2], 'c64', g((3, 0), (0, 2))), gleaf([2], 'c64', g((1, -1), (4, 3)))]),
        ),
        'empty': (node('list', []), node('list', [])),
        'py-scalars': (gleaf([], 'i64', g((3, 0)), weak=True, form='py'), gleaf([], 'i64', g((4, 0)), weak=True, form='py')),
        'dict-scalars': (node('dict', [gleaf([], 'i64', g((1, 0)), weak=True, form='py')], ['a']), node('dict', [gleaf([], 'f64', g((2, 0)), weak=True, form='py')], ['a'])),
        'size-mismatch': (node('list', [gleaf([2], 'f32', g((1, 0), (2, 0)))]), node('list', [gleaf([3], 'f32', g((1, 0), (2, 0), (3, 0)))])),
        'key-mismatch': (node('dict', [gleaf([], 'f32', g((1, 0)))], ['a']), node('dict', [gleaf([], 'f32', g((2, 0)))], ['b'])),
        'length-mismatch': (node('list', [gleaf([], 'f32', g((1, 0)))]), node('list', [gleaf([], 'f32', g((1, 0))), gleaf([], 'f32', g((1, 0)))])),
        'type-mismatch': (node('list', [gleaf([], 'f32', g((1, 0)))]), node('tuple', [gleaf([], 'f32', g((1, 0)))])),
        'leaf-vs-node': (gleaf([1], 'f32', g((1, 0))), node('list', [gleaf([1], 'f32', g((1, 0)))])),
        'node-vs-leaf': (node('list', [gleaf([1], 'f32', g((1, 0)))]), gleaf([1], 'f32', g((1, 0)))),
        'i32-i32': (node('dict', [gleaf([2], 'i32', g((1, 0), (2, 0)))], ['a']), node('dict', [gleaf([2], 'i32', g((1, 0), (2, 0)))], ['a'])),
    }
    out = []
    for name, (x, y) in pairs.items():
        out.append({'kind': 'dot', 'x64': x64, 'name': name, 'x': x, 'y': y})
        if name not in ('empty',):
            out.append({'kind': 'dot', 'x64': x64, 'name': name + '/swapped', 'x': y, 'y': x})
    return out


# ---- index expressions -----------------------------------------------------------------------
INDEX_SHAPES = [[], [5], [3, 4], [2, 3, 4]]


def mask_patterns(shape, rnd, extremes=True):
    """Boolean patterns of a shape: two seeded random ones that are neither empty nor full nor 'row-like'
    wherever possible, plus (extremes) all-False and all-True."""
    n = prod(shape)
    out = []
    for _ in range(40):
        if len(out) == 2:
            break
        d = [rnd.random() < 0.5 for _ in range(n)]
        if n > 1 and (all(d) or not any(d)):
            continue
        if d not in out:
            out.append(d)
    for d in ([i % 2 == 0 for i in range(n)], [i % 2 == 1 for i in range(n)], [i == n - 1 for i in range(n)]):
        if len(out) < 2 and d not in out:
            out.append(d)
    if extremes:
        out += [[False] * n, [True] * n]
    return out


def axis_slices(n):
    return [e_sl(), e_sl(1, None), e_sl(None, -1), e_sl(None, None, 2), e_sl(None, None, -1), e_sl(None, None, -2), e_sl(1, None, 3),
            e_sl(n - 1, 0, -2), e_sl(-10, 10), e_sl(n, 1), e_sl(1, 1), e_sl(-2, None), e_sl(n - 1, None, -1), e_sl(-1, -n - 1, -1),
            e_sl(0, n, n)]  # fmt: skip


def index_forms(shape, rnd):
    """(class label, index description): every NumPy basic / advanced index form on a component of this shape."""
    r = len(shape)
    out = []

    def add(label, es, tup=True):
        out.append((label, index_desc(es, tup)))

    if r == 0:
        add('empty-tuple', [])
        add('ellipsis', [ELL], False)
        add('none', [NEW], False)
        add('none', [NEW, NEW])
        add('ellipsis+none', [ELL, NEW])
        add('ellipsis+none', [NEW, ELL, NEW])
        add('bad/int-on-0d', [e_int(0)], False)
        add('bad/slice-on-0d', [FULL], False)
        add('bad/iarr-on-0d', [e_arr([1], [0])], False)
        add('bad/mask1-on-0d', [e_mask([1], [1])], False)
        add('bad/two-ellipsis', [ELL, ELL])
        for b in (0, 1):
            add('mask0', [e_mask([], [b], 'np')], False)
            add('mask0', [e_mask([], [b], 'jnp')], False)
            add('mask0', [['bool', b]], False)
            add('mask0', [['bool', b], NEW])
        return out

    n = shape
    n0 = n[0]
    # -- A. one entry, not in a tuple (first axis), and the same in a 1-tuple
    for i in (0, n0 - 1, -1, -n0):
        add('int', [e_int(i)], False)
    add('int', [e_int(1, 'np')], False)
    add('int', [e_int(-1, 'jnp')], False)
    add('int', [e_int(-2)])
    for sl in axis_slices(n0):
        add('slice', [sl], False)
    add('slice', [e_sl(None, None, -1)])
    add('ellipsis', [ELL], False)
    add('ellipsis', [ELL])
    add('none', [NEW], False)
    add('empty-tuple', [])
    for form in ('jnp', 'np'):
        add('iarr1', [e_arr([2], [n0 - 1, 0], form)], False)
        add('iarr1', [e_arr([3], [0, 0, -1], form)], False)
        add('iarr2', [e_arr([2, 2], [0, n0 - 1, -1, 0], form)], False)
    add('iarr1', [e_arr([0], [])], False)
    add('iarr1', [e_arr([1], [-n0])])
    add('iarr0', [e_arr([], [n0 - 1])], False)
    add('iarr0', [e_arr([], [-1], 'np')])
    add('iarr2', [e_arr([2, 1], [1, 0])], False)
    add('iarr2', [e_arr([1, 3], [0, -1, 1])])
    add('iarr3', [e_arr([2, 1, 2], [0, 1, -1, 0])], False)
    # -- B. every entry kind on every axis (behind full slices, and behind an Ellipsis from the right)
    for k in range(r):
        nk = n[k]
        pre = [FULL] * k
        ents = [('int', e_int(-1)), ('int', e_int(0, 'jnp')), ('slice', e_sl(None, None, -2)), ('slice', e_sl(1, None, 2)),
                ('slice', e_sl(nk - 1, None, -1)), ('iarr1', e_arr([2], [nk - 1, 0])), ('iarr1', e_arr([3], [-1, 0, 0], 'np')),
                ('iarr2', e_arr([2, 2], [0, -1, nk - 1, 0])), ('iarr0', e_arr([], [1])), ('none', NEW)]  # fmt: skip
        for d in mask_patterns([nk], rnd):
            ents.append(('mask1', e_mask([nk], d, 'jnp' if k % 2 else 'np')))
        for label, e in ents:
            if k:
                add(f'{label}@axis{k}', pre + [e])
            if k == r - 1 and r > 1:
                add(f'{label}@last-by-ellipsis', [ELL, e])
            elif k and r > 1:
                add(f'{label}@axis{k}-by-ellipsis', [ELL, e] + [FULL] * (r - 1 - k))
    # -- C. integers on several axes, slices on several axes, mixtures
    if r >= 2:
        add('ints', [e_int(n[0] - 1), e_int(-n[1])])
        add('ints', [e_int(-1, 'np'), e_int(1, 'jnp')])
        add('slices', [e_sl(None, None, -1), e_sl(1, None, 2)])
        add('slices', [e_sl(1, None), e_sl(None, -1)])
        add('int+slice', [e_int(-1), e_sl(None, None, -2)])
        add('int+slice', [e_sl(None, None, 2), e_int(1)])
        add('ellipsis+int', [e_int(1), ELL])
        add('ellipsis+int', [e_int(0), ELL, e_int(-1)])
        add('ellipsis+slice', [e_sl(1, None), ELL, e_sl(None, None, -1)])
        add('ellipsis-zero-width', [FULL] * r + [ELL])
        add('ellipsis-zero-width', [ELL] + [e_int(-1)] * r)
    if r >= 3:
        add('ints', [e_int(1), e_int(-1), e_int(2)])
        add('ints', [e_int(-2), e_int(0), e_int(-n[2])])
        add('int+slice', [e_int(1), e_sl(None, None, -1), e_int(-1)])
        add('int+slice', [e_sl(None, None, -1), e_int(1), e_sl(1, None, 2)])
        add('slices', [e_sl(None, None, -1), e_sl(None, None, 2), e_sl(3, 0, -2)])
        add('ellipsis+int', [e_int(0), ELL, e_sl(None, None, 2)])
        add('ellipsis-zero-width', [e_int(1), ELL, e_int(0), e_int(-1)])
    # -- D. None / newaxis everywhere
    add('none', [NEW, e_int(-1)])
    add('none', [e_int(0), NEW])
    add('none', [NEW, NEW])
    add('none', [ELL, NEW])
    add('none', [NEW, ELL, NEW])
    add('none', [e_sl(None, None, -1), NEW])
    if r >= 2:
        add('none', [FULL, NEW, e_int(1)])
        add('none', [e_int(0), NEW, e_int(1)])
        add('none', [NEW, e_sl(1, None), NEW, e_sl(None, None, 2), NEW])
    # -- E. several advanced indices: same shape, broadcasting pairs, with integers / slices / None / Ellipsis
    if r >= 2:
        a0 = e_arr([2], [n[0] - 1, 0])
        a1 = e_arr([2], [1, -1], 'np')
        add('iarr-pair', [a0, a1])
        add('iarr-pair/broadcast', [e_arr([2, 1], [0, -1]), e_arr([3], [n[1] - 1, 0, 1])])
        add('iarr-pair/broadcast', [e_arr([3], [0, 1, 0]), e_arr([2, 1], [-1, 0], 'np')])
        add('iarr-pair/broadcast', [e_arr([2, 2], [0, 1, 1, 0]), e_arr([2], [0, -1])])
        add('iarr-pair/broadcast', [e_arr([1], [1]), e_arr([3], [0, 2, 1])])
        add('iarr-pair/broadcast', [e_arr([], [1]), e_arr([2], [0, 2])])
        add('iarr+int', [a0, e_int(-1)])
        add('iarr+int', [e_int(1, 'np'), a1])
        add('iarr+slice', [a0, e_sl(None, None, -1)])
        add('iarr+slice', [e_sl(None, None, 2), a1])
        add('iarr+none', [a0, NEW])
        add('iarr+none', [NEW, a0])
        add('iarr+none', [a0, NEW, a1])
        add('iarr+ellipsis', [a0, ELL])
        add('iarr+ellipsis', [ELL, a1])
        add('iarr+ellipsis', [a0, ELL, a1])
        add('iarr-pair/last-axes', [ELL, a1, e_arr([2], [0, n[-1] - 1])] if r >= 3 else [ELL, a0, a1])
    if r >= 3:
        a2 = e_arr([2], [n[2] - 1, 1])
        a1b = e_arr([2], [1, -1])
        add('iarr-separated', [a0, FULL, a2])
        add('iarr-separated', [a0, e_sl(None, None, -1), e_arr([3, 1], [0, 1, 2])])
        add('iarr-separated', [e_int(1), FULL, a2])
        add('iarr-separated', [a0, FULL, e_int(-1)])
        add('iarr-separated', [a0, NEW, a1b])
        add('iarr-adjacent', [FULL, e_int(0), a2])
        add('iarr-adjacent', [FULL, a1b, a2])
        add('iarr-adjacent', [e_sl(None, None, -1), a1b, e_int(2)])
        add('iarr-adjacent', [a0, a1b, FULL])
        add('iarr-adjacent', [a0, e_int(1), e_sl(None, None, 2)])
        add('iarr-triple', [a0, a1b, a2])
        add('iarr-triple/broadcast', [e_arr([2, 1, 1], [0, 1]), e_arr([3, 1], [0, 1, 2]), e_arr([2], [0, 3])])
        add('iarr-triple/broadcast', [e_arr([2, 2], [0, 1, 1, 0]), e_int(-1), e_arr([2], [0, 3])])
    # -- F. boolean masks of every rank 1..r: leading, trailing, combined with every other entry kind
    for m in range(1, r + 1):
        lead = n[:m]
        for j, d in enumerate(mask_patterns(lead, rnd)):
            add(f'mask{m}-of-{r}/leading', [e_mask(lead, d, 'np' if j % 2 else 'jnp')], False)
        d = mask_patterns(lead, rnd, False)[0]
        add(f'mask{m}-of-{r}/leading', [e_mask(lead, d, 'np')])
        add(f'mask{m}-of-{r}+ellipsis', [e_mask(lead, d), ELL])
        add(f'mask{m}-of-{r}+none', [e_mask(lead, d), NEW])
        add(f'mask{m}-of-{r}+none', [NEW, e_mask(lead, d, 'np')])
        if m < r:
            trail = n[r - m:]
            for j, dt_ in enumerate(mask_patterns(trail, rnd, False)):
                add(f'mask{m}-of-{r}/trailing', [ELL, e_mask(trail, dt_, 'np' if j % 2 else 'jnp')])
            dt_ = mask_patterns(trail, rnd, False)[0]
            add(f'mask{m}-of-{r}/trailing', [FULL] * (r - m) + [e_mask(trail, dt_)])
            add(f'mask{m}-of-{r}+int', [e_mask(lead, d), e_int(-1)])
            add(f'mask{m}-of-{r}+int', [e_int(n[0] - 1)] + [e_mask(n[1:1 + m], mask_patterns(n[1:1 + m], rnd, False)[0], 'np')])
            add(f'mask{m}-of-{r}+slice', [e_mask(lead, d, 'np'), e_sl(None, None, -2)])
            add(f'mask{m}-of-{r}+slice', [e_sl(None, None, -1)] + [e_mask(n[1:1 + m], mask_patterns(n[1:1 + m], rnd, False)[1])])
            k = sum(d)
            add(f'mask{m}-of-{r}+iarr', [e_mask(lead, d), e_arr([k], [(-1) ** i * (i % n[m]) for i in range(k)])])
            add(f'mask{m}-of-{r}+iarr', [e_mask(lead, d, 'np'), e_arr([1], [n[m] - 1])])
            add(f'mask{m}-of-{r}+iarr', [e_mask(lead, d), e_arr([2, 1], [0, -1])])
            if m == 1:
                # a second mask with as many selected entries on the next axis
                d2 = [i < k for i in range(n[1])]
                rnd.shuffle(d2)
                if sum(d2) == k:
                    add(f'mask1-of-{r}+mask1', [e_mask(lead, d), e_mask([n[1]], d2, 'np')])
        if m + 2 <= r:
            dl = mask_patterns([n[-1]], rnd, False)[0]
            add(f'mask{m}-of-{r}/separated', [e_mask(lead, d), FULL, e_arr([2], [0, n[-1] - 1])])
            add(f'mask{m}-of-{r}/separated', [e_mask(lead, d), FULL, e_int(-1)])
            add(f'mask{m}-of-{r}/separated', [e_mask(lead, d, 'np'), NEW, e_sl(None, None, -1), e_int(0)])
            one = [i == len(dl) - 2 for i in range(len(dl))]
            add(f'mask{m}-of-{r}/separated', [e_mask(lead, d), FULL, e_mask([n[-1]], dl if sum(dl) == sum(d) else one, 'np')])
    if r == 3:
        mid = mask_patterns(n[1:], rnd, False)[0]
        add('mask2-of-3/middle+last', [e_int(0), e_mask(n[1:], mid)])
        add('mask1-of-3/middle', [FULL, e_mask([n[1]], mask_patterns([n[1]], rnd, False)[0]), e_sl(None, None, -1)])
        add('mask1-of-3/middle', [e_sl(None, None, -1), e_mask([n[1]], mask_patterns([n[1]], rnd, False)[1], 'np'), e_int(-1)])
    # rank-0 masks (Python bools, 0-d boolean arrays): outside the Coq model, NumPy oracle only
    for b in (0, 1):
        add('mask0', [e_mask([], [b], 'np')], False)
        add('mask0', [['bool', b]], False)
    add('mask0', [['bool', 1], e_int(-1)])
    add('mask0', [e_sl(None, None, -1), e_mask([], [1], 'jnp')])
    # -- G. malformed
    add('bad/too-many', [e_int(0)] * (r + 1))
    add('bad/too-many', [FULL] * r + [e_arr([1], [0])])
    add('bad/too-many', [ELL] + [FULL] * (r + 1))
    add('bad/too-many-by-mask', [e_mask(n + [1], [1] * prod(n))], False)
    add('bad/too-many-by-mask', [e_int(0), e_mask(n, [1] * prod(n))])
    add('bad/two-ellipsis', [ELL, e_int(0), ELL])
    add('bad/mask-shape', [e_mask([n0 + 1], [1] * (n0 + 1))], False)
    add('bad/mask-shape', [e_mask([n0 - 1], [1] * (n0 - 1), 'np')], False)
    add('bad/slice-step-0', [e_sl(None, None, 0)], False)
    if r >= 2:
        add('bad/mask-shape', [e_mask([n[0], n[1] + 1], [1] * (n[0] * (n[1] + 1)))], False)
        add('bad/mask-shape', [e_mask([n[1], n[0]], [1] * (n[0] * n[1]), 'np')], False)
        add('bad/mask-shape', [FULL, e_mask([n[0]], [1] * n[0])])
        add('bad/not-broadcastable', [e_arr([2], [0, 1]), e_arr([3], [0, 1, 0])])
        add('bad/not-broadcastable', [e_mask([n[0]], [1] * n[0]), e_arr([n[0] + 1], [0] * (n[0] + 1))])
        add('bad/not-broadcastable', [e_mask([n[0]], [1, 1] + [0] * (n[0] - 2)), e_mask([n[1]], [1, 1, 1] + [0] * (n[1] - 3), 'np')])
    return out


def random_index(shape, rnd):
    """A seeded random valid index expression for a component of this shape (rank >= 1)."""
    r = len(shape)
    es, axis, used_ell = [], 0, False
    bshape_ = rnd.choice([[2], [3], [2, 1], [1, 2], [2, 2]])
    while axis < r:
        roll = rnd.random()
        nk = shape[axis]
        if roll < 0.12:
            es.append(NEW)
            continue
        if roll < 0.2 and not used_ell:
            used_ell = True
            skip = rnd.randint(0, r - axis)
            es.append(ELL)
            axis += skip
            continue
        if roll < 0.4:
            es.append(e_int(rnd.randint(-nk, nk - 1), rnd.choice(['py', 'py', 'np', 'jnp'])))
        elif roll < 0.62:
            st = rnd.choice([None, 1, 2, 3, -1, -2, -3])
            es.append(e_sl(rnd.choice([None, rnd.randint(-nk - 1, nk + 1)]), rnd.choice([None, rnd.randint(-nk - 1, nk + 1)]), st))
        elif roll < 0.82:
            sh = rnd.choice([bshape_, bshape_, bshape_[-1:], [1], []])
            es.append(e_arr(sh, [rnd.randint(-nk, nk - 1) for _ in range(prod(sh))], rnd.choice(['jnp', 'np'])))
        else:
            m = rnd.randint(1, r - axis)
            msh = shape[axis:axis + m]
            # as many selected entries as the last axis of the common index-array shape (or one): broadcastable
            k = rnd.choice([c for c in (1, bshape_[-1]) if c <= prod(msh)])
            d = [i < k for i in range(prod(msh))]
            rnd.shuffle(d)
            es.append(e_mask(msh, d, rnd.choice(['jnp', 'np'])))
            axis += m - 1
        axis += 1
        if not used_ell and axis < r and rnd.random() < 0.25:
            break
    while rnd.random() < 0.1:
        es.append(NEW)
    return index_desc(es, True) if len(es) != 1 or rnd.random() < 0.5 else index_desc(es, False)


# ----------------------------------------------------------------------------------------------
# exact reference arithmetic (NumPy object arrays of Fractions)


def np_exact(v):
    import numpy as np

    a = np.empty(prod(v['shape']), dtype=object)
    for j, x in enumerate(v['data']):
        a[j] = frac(x)
    return a.reshape(v['shape'])


def exact_op(op, a, b):
    if op == 'pow':
        import numpy as np

        f = np.frompyfunc(lambda x, y: x ** int(y), 2, 1)
        return f(a, b)
    return PY_OP[op](a, b)


def leaf_matches(obs, shape, values, dt=None):
    """Message when the observed leaf differs from the expected shape / exactly rounded values."""
    if 'data' not in obs:
        return f'not an array: {obs}'
    if list(obs['shape']) != list(shape):
        return f'shape {obs["shape"]}, expected {list(shape)}'
    if dt is not None and obs['dt'] != dt:
        return f'dtype {obs["dt"]}, expected {dt}'
    exp = [lib.canon(round_to(Fraction(x), obs['dt'])) for x in values]
    if lib.canon(obs['data']) != exp:
        return f'values {lib.canon(obs["data"])[:8]}, expected {exp[:8]}'
    return None


class Check(PropertyCheck):
    id = 'C20'
    props = ['C20.v']
    static_targets = ['theories/Lemmas/StokesTreeL.vo']
    coq_header = (
        'From Coq Require Import ZArith QArith List String.\n'
        'From Furax Require Import Base.Pytree Model.StokesTree.\n'
        'Import ListNotations.\nOpen Scope nat_scope.\nOpen Scope string_scope.\nUnset Printing Records.'
    )
    shard = 200
    trusted = [
        'JAX leaf primitives as specified in Model/StokesTree.v part 2 and compared with JAX by this harness: the '
        'dtype promotion lattice (all 12x12 pairs and 12^3 triples of jnp.result_type, both x64 modes - complete), '
        'result types of + - * / ** on non-boolean operands (all pairs, vector and 0-d forms), NumPy broadcasting, '
        'indexing (NumPy basic + advanced indexing semantics as specified by arr_index: in-range indices, masks as '
        'their nonzero() coordinates, placement of the broadcast index axes), ravel, reshape, jnp.full, jnp.astype, jax.eval_shape, jnp.vdot = sum conj(x_i) y_i, '
        'jax.random.split/normal/uniform (only shape, dtype and which sub-key is used are modelled)',
        'floating point: leaves are exact rationals (Gaussian integers for dot); quotients are rounded to the result '
        'dtype by the harness (IEEE division is correctly rounded); all other operations are exact on the generated '
        'inputs (distinct small primes); integer overflow is not modelled',
        "CPython's binary-operator protocol as modelled by py_binop (forward call, reflected call on NotImplemented "
        'unless both operands have the same class; no subclass priority among the four sibling classes); JAX arrays and '
        'Python numbers return NotImplemented for a container operand; a NumPy scalar on the LEFT reaches __r<op>__ as '
        'the corresponding Python scalar (NumPy object-dtype ufunc loop)',
        'jax.tree.map/leaves/structure on lists, tuples, dicts (sorted keys), None and the Stokes dataclasses as '
        'modelled by Base/Pytree.v and pmapM/pmap2M',
        'correspondence harness harness/c20.py (case generators, the two printers of one case description, the x64 '
        'worker subprocess protocol, rounding of exact quotients)',
    ]

    def __init__(self, tier, seed):
        super().__init__(tier, seed)
        self.stats = {}
        self.notes = [
            'defect found: furax.tree.as_promoted_dtype raises ValueError on a pytree without leaves (and so '
            'StokesPyTree.from_stokes() raises ValueError instead of its own TypeError); fix: '
            'fixes/C20-as-promoted-dtype-empty.diff; the model follows the fixed code (EMPTY_OK = True)',
            'boundaries (not defects): a NumPy scalar on the LEFT of a container arrives as a Python scalar, so with x64 '
            'np.float64(2) - s keeps float32 leaves while s - np.float64(2) gives float64; NumPy non-scalar arrays are '
            'not handled by the dunders (NumPy builds object arrays); str operands count as scalars for jnp.isscalar; '
            'out-of-range integer indices are clamped by JAX where NumPy raises, lists as indices are rejected by JAX, and '
            'jnp.reshape raises ZeroDivisionError for a target with both 0 and -1 (none generated: leaf-primitive behaviour, '
            'identical on every component); from_stokes only accepts upper-case keywords; StokesPyTree.structure reports the dtype of the first '
            'component for every component; structure_for keeps a non-canonical dtype (float64 with x64 off)',
            'tree-level sesquilinearity of dot follows from dot_hermitian_sum and the vdot lemmas but is not stated as '
            'one theorem',
        ]

    # ---- cases -------------------------------------------------------------------------------
    def cases(self):
        quick = self.tier == 'quick'
        cases = []
        for x64 in (False, True):
            cases.append({'kind': 'dtable', 'x64': x64})
            allc = [(k, sh, cfg) for k in KINDS for sh in SHAPES for cfg in DTCFG]
            if quick:
                # every kind, shape and dtype configuration occurs; different picks per x64 mode
                combos = [(KINDS[i % 4], SHAPES[(i + x64) % 3], DTCFG[(i // 2 + x64) % 4]) for i in range(6)]
            else:
                combos = allc
            cases += binop_cases(combos, x64)
            cases += self.rawop_cases(x64)
            cases += self.method_cases(x64, quick)
            cases += self.factory_cases(x64, quick)
            cases += self.from_cases(x64)
            cases += dot_cases(x64)
            cases += self.helper_cases(x64)
        return cases

    def rawop_cases(self, x64):
        out = []
        for kind in KINDS:
            s = stokes_desc(kind, [2], 'f32', 0)
            others = [stokes_desc(kind, [2], 'f32', 20), stokes_desc(KINDS[(KINDS.index(kind) + 2) % 4], [2], 'f32', 20),
                      val(arr([], 'f32', [199])), val(arr([], 'i64', [197], True, 'py')), val({'t': 'str'}),
                      {'o': 'other', 'what': 'none'}, {'o': 'other', 'what': 'tuple'}]  # fmt: skip
            for o in others:
                for fwd in (True, False):
                    out.append({'kind': 'rawop', 'x64': x64, 's': s, 'other': o, 'fwd': fwd})
        return out

    def method_cases(self, x64, quick):
        out = []
        for i, kind in enumerate(KINDS):
            for shape in SHAPES + [[4, 3]]:
                cfg = DTCFG[(i + len(shape)) % 4]
                s = stokes_desc(kind, shape, cfg, 0)
                neg = stokes_desc(kind, shape, cfg, 0)
                for c in neg['comps']:
                    c['data'] = [(-x if j % 2 == 0 else x) for j, x in enumerate(c['data'])]
                for op in ('neg', 'pos', 'abs'):
                    out.append({'kind': 'unary', 'x64': x64, 'op': op, 's': neg})
                out.append({'kind': 'ravel', 'x64': x64, 's': s})
                size = prod(shape)
                news = [[-1], [size], [1, size], [size, 1], [size + 1], [-1, -1]]
                if size % 2 == 0:
                    news += [[2, -1], [-1, 2], [2, size // 2]]
                if size % 3 == 0:
                    news += [[3, -1]]
                if size % 2:
                    news += [[2, -1]]
                for new in news:
                    out.append({'kind': 'reshape', 'x64': x64, 's': s, 'new': new})
                if shape:
                    n = shape[0]
                    idx = [['int', 0], ['int', n - 1], ['int', -1], ['int', -n], ['slice', 0, n], ['slice', 1, n], ['slice', 1, 1],
                           ['arr', [n - 1, 0]], ['arr', [0, 0, -1]], ['arr', []]]  # fmt: skip
                else:
                    idx = [['int', 0], ['slice', 0, 1]]
                for ix in idx:
                    out.append({'kind': 'getitem', 'x64': x64, 's': s, 'index': ix})
        out += self.index_cases(x64, quick)
        out += self.shape_method_cases(x64, quick)
        # scalar product between containers (__matmul__)
        g = lambda k, off: {'o': 'stokes', 'kind': k, 'comps': [arr([2], 'c64', [[PRIMES[off + 2 * c + j], (-1) ** j * PRIMES[off + 9 + 2 * c + j]] for j in range(2)]) for c in range(len(k))]}  # noqa: E731
        for kind in KINDS:
            out.append({'kind': 'matmul', 'x64': x64, 'l': g(kind, 0), 'r': g(kind, 18)})
            out.append({'kind': 'matmul', 'x64': x64, 'l': g(kind, 18), 'r': g(kind, 0)})
            out.append({'kind': 'matmul', 'x64': x64, 'l': g(kind, 0), 'r': g(KINDS[(KINDS.index(kind) + 1) % 4], 18)})
            out.append({'kind': 'matmul', 'x64': x64, 'l': g(kind, 0), 'r': val(arr([], 'i64', [[2, 0]], True, 'py'))})
            out.append({'kind': 'matmul', 'x64': x64, 'l': val(arr([2], 'f32', [[2, 0], [3, 0]])), 'r': g(kind, 0)})
        return out

    def index_cases(self, x64, quick):
        """tree[index] for every NumPy index form on components of rank 0-3 (index_forms) and a seeded random
        stream (random_index); Stokes kind and dtype configuration rotate over the forms (thorough: every kind)."""
        import random

        out = []
        rnd = random.Random(f'C20-index-{self.seed}')  # cases() is called more than once: same stream every time
        j = int(x64)
        for shape in INDEX_SHAPES:
            forms = index_forms(shape, rnd)
            nrand = 0 if not shape else (12 * len(shape) if quick else 60 * len(shape))
            forms += [('random', random_index(shape, rnd)) for _ in range(nrand)]
            seen = set()
            for label, ixd in forms:
                key = json.dumps(ixd)
                if key in seen:
                    continue
                seen.add(key)
                kinds = [KINDS[j % 4]] if quick else KINDS
                for kind in kinds:
                    cfg = DTCFG[(j // 4 + KINDS.index(kind)) % 4]
                    s = stokes_desc(kind, shape, cfg, 0)
                    out.append({'kind': 'index', 'x64': x64, 's': s, 'index': ixd, 'cls': label})
                j += 1
        return out

    def shape_method_cases(self, x64, quick):
        """ravel / reshape on components of rank 0-3 incl. empty ones; reshape targets: every ordered factorisation
        into <= 3 factors of small sizes, -1 at every position, impossible targets, four spellings of the argument."""
        out = []
        shapes = [[], [1], [6], [2, 3], [1, 4], [2, 3, 2], [2, 1, 3], [0], [2, 0], [0, 3, 2]]
        for i, shape in enumerate(shapes):
            kind = KINDS[(i + x64) % 4]
            cfg = DTCFG[(i + 2 * x64) % 4]
            s = stokes_desc(kind, shape, cfg, 0)
            size = prod(shape)
            out.append({'kind': 'ravel', 'x64': x64, 's': s})
            # (a target with both 0 and -1 makes jnp.reshape raise ZeroDivisionError: a JAX quirk, not generated)
            news = [[], [size], [-1], [1, -1], [-1, 1], [1, size, 1], [-1, 1, 1], [1, -1, 1], [size + 1], [-1, -1], [size, 0]]
            div = [a for a in range(2, size + 1) if size % a == 0]
            for a in div:
                news += [[a, size // a], [a, -1], [-1, a]]
                for b in [b for b in div if (size // a) % b == 0 and b < size // a][:2]:
                    news += [[a, b, size // a // b], [[-1, a, b], [a, -1, size // a // b], [a, b, -1]][(a + b) % 3]]
            news += [[a, -1] for a in range(2, 5) if size % a] + [[-1, a, 2] for a in (2, 3) if size % (2 * a)]
            if size == 0:
                news += [[0], [2, 0], [0, 5], [3, -1], [-1, 3]]
            seen = []
            for new in news:
                if new in seen:
                    continue
                seen.append(new)
                forms = ['tuple'] + (['int', 'list', 'npint'] if len(new) == 1 and len(seen) % 2 else [['list'], ['npint'], []][len(seen) % 3])
                for form in forms:
                    out.append({'kind': 'reshape', 'x64': x64, 's': s, 'new': new, 'form': form})
        return out

    def factory_cases(self, x64, quick):
        out = []
        names = ['I', 'QU', 'IQU', 'IQUV', '', 'i', 'qu', 'Q', 'U', 'V', 'IQ', 'IU', 'IV', 'QV', 'UV', 'IQV', 'IUV', 'QUV', 'UQ', 'QUI',
                 'IQUVV', 'IQUV ', ' I', 'II', 'I,Q,U', 'iqu', 'Stokes']  # fmt: skip
        for n in names:
            out.append({'kind': 'class_for', 'x64': x64, 'name': n})
        dts = [None, 'pyfloat', 'pyint', 'pycomplex', 'f32', 'f64', 'i32', 'i64', 'f16', 'bf16', 'c64']
        for i, kind in enumerate(KINDS):
            for j, shape in enumerate(SHAPES + [[0], [2, 0, 3]]):
                for dt in dts if (not quick or (i + j) % 2 == 0) else dts[:2] + [dts[2 + (i + j) % 9]]:
                    base = {'kind': 'factory', 'x64': x64, 'stokes': kind, 'shape': shape, 'dt': dt}
                    out.append(dict(base, which='structure_for'))
                    out.append(dict(base, which='zeros'))
                    out.append(dict(base, which='ones'))
                    out.append(dict(base, which='full', fill=[7, 2] if dt in (None, 'pyfloat', 'f32', 'f64', 'f16', 'bf16', 'c64', 'pycomplex') else 7))
                    if prod(shape) > 0 and (dt is None or dt[0] in 'pfbic'):
                        out.append(dict(base, which='normal', seed=3 + i))
                        out.append(dict(base, which='uniform', seed=5 + j))
            out.append({'kind': 'factory', 'x64': x64, 'stokes': kind, 'shape': [2, 3], 'dt': 'f32', 'which': 'uniform', 'seed': 1, 'range': [2.0, 4.0]})
        return out

    def from_cases(self, x64):
        out = []
        a = lambda dt, start, shape=(2,), **kw: arr(shape, dt, [start + j for j in range(prod(shape))], **kw)  # noqa: E731
        pools = {
            'f32': [a('f32', 2), a('f32', 5), a('f32', 11), a('f32', 17), a('f32', 23)],
            'mixed': [a('i32', 2), a('f16', 5), a('f32', 11), a('bf16', 17), a('i64', 23)],
            'int-f16': [a('i32', 2), a('f16', 5), a('i64', 11), a('f16', 17), a('i32', 23)],
            'shapes': [a('f32', 2, ()), a('f64', 5, (3,)), a('i32', 11, (2, 2)), a('f32', 17, (1,)), a('f32', 1)],
            'sds': [sds([2], 'i32'), sds([3], 'f16'), sds([], 'f32'), sds([2], 'bf16'), sds([1], 'i64')],
            'sds-array': [sds([2], 'i32'), a('f16', 5), sds([], 'f64'), a('i32', 17), a('f32', 1)],
            'py': [arr([], 'i64', [2], True, 'py'), arr([], 'f64', [3], True, 'py'), arr([], 'i64', [5], True, 'py'), arr([], 'i64', [7], True, 'py'), arr([], 'i64', [9], True, 'py')],
            'weak': [arr([], 'i64', [2], True), arr([], 'i64', [3], True), arr([], 'i64', [5], True), arr([], 'i64', [7], True), arr([], 'i64', [9], True)],
            'complex': [a('f32', 2), a('c64', 5), a('f64', 11), a('i32', 17), a('f32', 1)],
        }
        for name, pool in pools.items():
            for n in range(0, 6):
                out.append({'kind': 'from_stokes', 'x64': x64, 'pool': name, 'args': pool[:n], 'kw': []})
            for keys in ['I', 'QU', 'UQ', 'IQU', 'UIQ', 'IQUV', 'VUQI', 'Q', 'IQ', 'QUV', 'iqu', 'qu', 'i', 'IQUVX']:
                kw = [[k, pool['IQUVX'.index(k.upper())]] for k in keys]
                out.append({'kind': 'from_stokes', 'x64': x64, 'pool': name, 'args': [], 'kw': kw})
            out.append({'kind': 'from_stokes', 'x64': x64, 'pool': name, 'args': pool[:1], 'kw': [['Q', pool[1]]]})
            out.append({'kind': 'from_stokes', 'x64': x64, 'pool': name, 'args': pool[:2], 'kw': [['Q', pool[1]], ['U', pool[2]]]})
            out.append({'kind': 'from_stokes', 'x64': x64, 'pool': name, 'args': [], 'kw': [['QU', pool[1]]]})
            out.append({'kind': 'from_stokes', 'x64': x64, 'pool': name, 'args': [], 'kw': [['IQ', pool[1]], ['U', pool[2]]]})
            for kind in KINDS:
                if kind == 'I' and name == 'py':
                    continue  # the I class stores its argument as it is (a Python scalar is not an array leaf)
                out.append({'kind': 'from_iquv', 'x64': x64, 'pool': name, 'stokes': kind, 'args': pool[:4]})
        # components not in the class are ignored by from_iquv, whatever they are
        for kind in KINDS:
            args = [a('f32', 2) if c in kind else {'t': 'str'} for c in 'IQUV']
            out.append({'kind': 'from_iquv', 'x64': x64, 'pool': 'ignored', 'stokes': kind, 'args': args})
        return out

    def helper_cases(self, x64):
        out = []
        for name, t in sample_trees().items():
            for which in ('is_leaf', 'promoted', 'structure', 'zeros_like', 'ones_like', 'normal_like', 'uniform_like'):
                out.append({'kind': 'helper', 'x64': x64, 'which': which, 'name': name, 'tree': t, 'seed': 7})
            out.append({'kind': 'helper', 'x64': x64, 'which': 'full_like', 'name': name, 'tree': t, 'fill': 3})
        return out

    def rule(self):
        return (
            'dtable: ALL pairs and triples of the 12 promotion-lattice nodes, result types of the five operators on all '
            'non-boolean pairs in vector and 0-d form (exhaustive, both x64 modes). binop: Stokes kind x shape {(),(3,),(2,2)} '
            'x dtype configuration {f32,f64,i32,mixed} (quick: 6 combinations per x64 mode covering every kind, shape and '
            'configuration; thorough: all 48) x 5 operators x both operand orders x 20-24 operand forms (same kind: equal / '
            'other dtype / broadcast / incompatible shape; other kind; Python int/float; NumPy f32/f64/i32/i64 scalars and 0-d '
            'array; JAX 0-d weak/strong; broadcasting and incompatible JAX arrays; str, None, list, dict) with distinct '
            'prime-valued components. rawop: _operation/_roperation called with a recording leaf function. unary, ravel, '
            'reshape (incl. -1, impossible), getitem (int, negative, slice, index array), matmul; index: tree[index] on '
            'components of shape (), (5,), (3,4), (2,3,4) for every NumPy basic/advanced index form - ints (negative; Python / '
            'NumPy / 0-d JAX), slices with positive and negative steps and clamped bounds, Ellipsis (also zero-width), None, '
            'tuples mixing them, integer arrays of rank 0-3 on every axis, pairs and triples of index arrays (equal shapes, '
            'broadcasting, adjacent and separated by slices / None / Ellipsis, mixed with ints), boolean masks of EVERY rank '
            '1..rank (leading, trailing, middle; random / all-False / all-True patterns; NumPy and JAX masks; combined with '
            'ints, slices, None, Ellipsis, index arrays and other masks), rank-0 masks (NumPy oracle only), malformed indices '
            '(too many, two Ellipsis, mask shape mismatch, not broadcastable, step 0), plus a seeded random stream of valid '
            'index tuples; Stokes kind and dtype configuration rotate over the forms (thorough: all kinds). ravel / reshape on '
            'shapes of rank 0-3 incl. empty: all 2-factorisations and some 3-factorisations of the size, -1 at every position, '
            'impossible targets, argument spelled as tuple / list / bare int / NumPy ints; class_for on 27 names; '
            'factories x shapes (incl. empty) x 11 dtype spellings; from_stokes positional 0..5 / keyword sets / both, 9 leaf '
            'pools; from_iquv; dot on complex / nested / mismatching trees, both argument orders; helpers on 23 nested trees '
            'of arrays, ShapeDtypeStructs, Python scalars, empty containers. Distinct by canonical JSON of the case.'
        )

    def distribution(self, cases):
        d = {}
        for c in cases:
            cls = c.get('cls', '').split('/')[0].split('@')[0].split('+')[0].split('-of-')[0]
            cls = 'mask' if cls.startswith('mask') else 'iarr' if cls.startswith('iarr') else cls
            k = c['kind'] + ('/' + c['which'] if 'which' in c else '') + ('/' + cls if cls else '') + ('/x64' if c.get('x64') else '')
            d[k] = d.get(k, 0) + 1
        return d

    def nontrivial(self, case, obs):
        return case['kind'] != 'class_for' or case['name'] in KINDS or len(case['name']) > 0

    # ---- implementation ----------------------------------------------------------------------
    def run_impl(self, case):
        want = bool(case.get('x64', False))
        # the other mode runs in a worker process, fed by a background thread while this process
        # works through its own cases
        import threading

        if not hasattr(self, '_pre') and case.get('kind') != 'replayed':
            self._pre = {}
            todo = [c for c in self.cases() if bool(c.get('x64', False)) != x64_mode()]
            self._planned = {lib.case_id(c) for c in todo}

            def feed():
                for c in todo:
                    try:
                        self._pre[lib.case_id(c)] = ('ok', ask(bool(c.get('x64', False)), c))
                    except Exception as e:  # reported when the case is requested
                        self._pre[lib.case_id(c)] = ('err', e)

            self._thread = threading.Thread(target=feed, daemon=True)
            self._thread.start()
        if x64_mode() == want:
            return lib.canon(impl_case(case))
        cid = lib.case_id(case)
        if cid in self._planned:
            import time

            while cid not in self._pre and self._thread.is_alive():
                time.sleep(0.01)
            if cid in self._pre:
                tag, val_ = self._pre[cid]
                if tag == 'err':
                    raise val_
                return val_
        self._thread.join()
        return ask(want, case)

    # ---- model -------------------------------------------------------------------------------
    def model_term(self, case):
        global NO_SHAPE
        x64 = bool(case.get('x64'))
        X = cbool(x64)
        kind = case['kind']
        if kind == 'dtable':
            return f'(all_tables {X}, triple_table {X})'
        if kind == 'binop':
            nl = case['l']['o'] == 'val' and case['l']['v'].get('form') in ('np', 'np0d')
            return f'rmap show_stokes (stokes_binop {X} {COQ_OP[case["op"]]} {coq_operand(case["l"], x64, nl)} {coq_operand(case["r"], x64)})'
        if kind == 'rawop':
            tag = lambda v: '999%Z' if v['t'] == 'str' else f'{int(frac(v["data"][0]))}%Z'  # noqa: E731
            st = lambda s: f'(mkS {COQ_KIND[s["kind"]]} {clist(s["comps"], tag)})'  # noqa: E731
            o = case['other']
            other = f'(OS {st(o)})' if o['o'] == 'stokes' else f'(OV {tag(o["v"])})' if o['o'] == 'val' else '(@OX Z)'
            f = 'operation' if case['fwd'] else 'roperation'
            return f'{f} (fun x y => Ok (x * 1000 + y)%Z) {st(case["s"])} {other}'
        if kind == 'unary':
            return f'rmap show_stokes (stokes_unary {case["op"].capitalize()} {coq_stokes(case["s"], x64)})'
        if kind == 'matmul':
            if case['l']['o'] != 'stokes':
                return '(@Err gz TypeError)'
            gs = lambda s: f'(mkS {COQ_KIND[s["kind"]]} {clist(s["comps"], lambda c: clist(c["data"], coq_gz))})'  # noqa: E731
            r = case['r']
            other = f'(OS {gs(r)})' if r['o'] == 'stokes' else f'(OV {clist(r["v"]["data"], coq_gz)})'
            return f'stokes_matmul gz gz0 gz_add gz_mul gz_conj {gs(case["l"])} {other}'
        if kind == 'getitem':
            ix = case['index']
            index = f'(IInt ({ix[1]})%Z)' if ix[0] == 'int' else f'(ISlice {ix[1]} {ix[2]})' if ix[0] == 'slice' else f'(IArr {clist(ix[1], lambda z: f"({z})%Z")})'
            return f'rmap show_stokes (stokes_getitem {index} {coq_stokes(case["s"], x64)})'
        if kind == 'index':
            if not index_modelled(case['index']):
                return None
            return f'rmap show_stokes (stokes_index {coq_index(case["index"])} {coq_stokes(case["s"], x64)})'
        if kind == 'ravel':
            return f'rmap show_stokes (stokes_ravel {coq_stokes(case["s"], x64)})'
        if kind == 'reshape':
            return f'rmap show_stokes (stokes_reshape {clist(case["new"], lambda z: f"({z})%Z")} {coq_stokes(case["s"], x64)})'
        if kind == 'class_for':
            return f'class_for {cstr(case["name"])}'
        if kind == 'factory':
            K = COQ_KIND[case['stokes']]
            which = case['which']
            default = 'f64'
            dt = COQ_DT[{'pyfloat': 'f64', 'pyint': 'i64', 'pycomplex': 'c128', None: default}.get(case['dt'], case['dt'])]
            shape = clist(case['shape'])
            if which == 'structure_for':
                return f'(@Ok _ (show_stokes (structure_for {K} (@VSds Q {shape} {dt} false))))'
            if which in ('zeros', 'ones', 'full'):
                fill = coq_q({'zeros': 0, 'ones': 1}.get(which, case.get('fill')))
                return f'rmap show_stokes (factory_full {X} {K} {shape} {dt} {fill})'
            return f'factory_random {X} {"Normal" if which == "normal" else "Uniform"} {K} {shape} {dt}'
        if kind == 'from_stokes':
            args = clist(case['args'], lambda v: coq_val(v, x64))
            kw = clist(case['kw'], lambda p: f'({cstr(p[0])}, {coq_val(p[1], x64)})')
            return f'rmap show_stokes (from_stokes (promote_list {cbool(EMPTY_OK)} {X}) ({args} : list (val Q)) ({kw} : list (string * val Q)))'
        if kind == 'from_iquv':
            args = ' '.join(coq_val(v, x64) for v in case['args'])
            return f'rmap show_stokes (@from_iquv (val Q) (promote_list {cbool(EMPTY_OK)} {X}) {COQ_KIND[case["stokes"]]} {args})'
        if kind == 'dot':
            return f'dot_val {X} {coq_tree(case["x"], x64, True, "gz")} {coq_tree(case["y"], x64, True, "gz")}'
        if kind == 'helper':
            which = case['which']
            NO_SHAPE = which in ('full_like', 'zeros_like', 'ones_like', 'normal_like', 'uniform_like')
            try:
                t = coq_tree(case['tree'], x64)
            finally:
                NO_SHAPE = False
            if which == 'is_leaf':
                return f'is_leaf {t}'
            if which == 'promoted':
                return f'rmap show_tree (as_promoted_dtype {cbool(EMPTY_OK)} {X} {t})'
            if which == 'structure':
                return f'rmap show_tree (as_structure {X} {t})'
            if which in ('full_like', 'zeros_like', 'ones_like'):
                fill = coq_q({'zeros_like': 0, 'ones_like': 1}.get(which, case.get('fill')))
                return f'rmap show_tree (full_like {X} {fill} {t})'
            return f'random_like {X} {"Normal" if which == "normal_like" else "Uniform"} {t}'
        return None

    def decode(self, case, v):
        kind = case['kind']
        ctor = lib.coqparse.ctor

        def opt_ty(t):
            if t is None:
                return None
            name, a = ctor(t)
            return list(dec_ty(a[0] if name == 'Some' else t))

        def rnd(t):
            n, a = ctor(t) if isinstance(t, dict) else (None, None)
            sh, dt, key = t
            return {'shape': sh, 'dt': DT_OF_COQ[dt['c']], 'key': key}

        if kind == 'dtable':
            rt, vec, sca, triples = v
            ops = {}
            for o, tab in zip(OPS, vec):
                ops[f'{o}/vector'] = [[opt_ty(c) for c in row] for row in tab]
            for o, tab in zip(OPS, sca):
                if o in ('div', 'pow'):
                    ops[f'{o}/scalar'] = [[opt_ty(c) for c in row] for row in tab]
            return {'rt': [[opt_ty(c) for c in row] for row in rt], 'ops': ops, 'triples': [[[opt_ty(c) for c in row] for row in pl] for pl in triples]}
        if kind == 'rawop':
            name, args = ctor(v)
            if name == 'NotImpl':
                return {'ok': 'NotImplemented', 'calls': []}
            if name == 'Err':
                return {'err': args[0]['c']}
            n2, a = ctor(args[0])
            tg = lambda z: 'str' if z == 999 else z  # noqa: E731
            return {'ok': KIND_OF_COQ[a[0]['c']], 'calls': [[tg(z // 1000), tg(z % 1000)] for z in a[1]]}
        if kind in ('binop', 'getitem', 'index', 'ravel', 'reshape', 'from_stokes', 'from_iquv'):
            return dec_res(v, dec_stokes)
        if kind == 'unary':
            r = dec_res(v, dec_stokes)
            if case['op'] == 'pos':
                r['same_object'] = True
            return r
        if kind == 'matmul':
            r = dec_res(v, lambda z: [z[0], z[1]])
            return {'err': 'TypeError'} if r.get('err') == 'NotImplemented' else r
        if kind == 'class_for':
            return dec_res(v, lambda k: KIND_OF_COQ[k['c']])
        if kind == 'factory':
            if case['which'] in ('normal', 'uniform'):
                return dec_res(v, lambda s: dec_stokes(s, leaf=rnd))
            return dec_res(v, dec_stokes)
        if kind == 'dot':
            def f(p):
                re, im, t = p
                dt, weak = opt_ty(t)
                return {'val': [re, im], 'dt': dt, 'weak': weak}

            return dec_res(v, f)
        if kind == 'helper':
            which = case['which']
            if which == 'is_leaf':
                return {'ok': bool(v)}
            if which in ('normal_like', 'uniform_like'):
                return dec_res(v, lambda t: dec_tree(t, rnd))
            return dec_res(v, dec_tree)
        raise ValueError(kind)

    def comparable(self, case, obs):
        if not isinstance(obs, dict):
            return obs
        kind = case['kind']
        obs = {k: v for k, v in obs.items() if k != 'ref'}
        if kind == 'dtable':
            return {'rt': [[c[:2] for c in row] for row in obs['rt']], 'ops': obs['ops'], 'triples': obs['triples']}
        if kind == 'matmul' and 'ok' in obs:
            return {'ok': obs['ok']['data'][0]}
        if kind == 'dot' and 'ok' in obs:
            o = obs['ok']
            return {'ok': {'val': o['data'][0], 'dt': o['dt'], 'weak': o['weak']}}
        if kind == 'factory' and case['which'] == 'uniform' and 'ok' in obs:
            return {'ok': {'kind': obs['ok']['kind'], 'comps': [{k: v for k, v in c.items() if k != 'in_range'} for c in obs['ok']['comps']]}}
        return obs

    # ---- oracle: the property, evaluated on the implementation's observation -----------------
    def oracle(self, case, obs):
        if not isinstance(obs, dict):
            return None
        f = getattr(self, 'oracle_' + case['kind'], None)
        return f(case, obs) if f else None

    def oracle_dtable(self, case, obs):
        rt = obs['rt']
        for i, a in enumerate(NODES):
            for j, b in enumerate(NODES):
                if rt[i][j][:2] != rt[j][i][:2]:
                    return f'result_type({a},{b}) != result_type({b},{a})'
                if rt[i][j][2] != rt[i][j][0]:
                    return f'result_type of ({a},{b}) differs between 0-d and 1-d operands'
        return None

    def oracle_binop(self, case, obs):
        l, r, op = case['l'], case['r'], case['op']
        s, o = (l, r) if l['o'] == 'stokes' else (r, l)
        good = o['o'] == 'stokes' and o['kind'] == s['kind'] or o['o'] == 'val' and o['v']['t'] == 'arr'
        expr = f'{case["form"]} operand, {op}, {case["order"]}'
        if not good:
            if obs.get('err') != 'TypeError':
                return f'{expr}: expected TypeError, got {obs.get("err") or "a result"}'
            return None
        comps_of = lambda x: [np_exact(c) for c in x['comps']] if x['o'] == 'stokes' else [np_exact(x['v'])] * len(s['kind'])  # noqa: E731
        L, R = comps_of(l), comps_of(r)
        import numpy as np

        try:
            exp = [exact_op(op, a, b) for a, b in zip(L, R)]
        except ValueError:
            if 'err' not in obs:
                return f'{expr}: shapes cannot be broadcast but a result was returned'
            return None
        if 'err' in obs:
            return f'{expr}: raised {obs["err"]}'
        res = obs['ok']
        if res.get('kind') != s['kind'] or len(res.get('comps', [])) != len(exp):
            return f'{expr}: result is {res.get("kind", res)}, expected a {s["kind"]} container'
        for c, (e, got, ref) in enumerate(zip(exp, res['comps'], obs.get('ref') or [None] * len(exp))):
            e = np.asarray(e, dtype=object)
            msg = leaf_matches(got, e.shape, list(e.ravel()))
            if msg:
                return f'{expr}: component {s["kind"][c]}: {msg} (= component {s["kind"][c]} of the operands combined in the written order)'
            if isinstance(ref, list) and [got['dt'], got['weak']] != ref:
                return f'{expr}: component {s["kind"][c]} has type {got["dt"]}{"*" if got["weak"] else ""}, the leaf operation alone gives {ref[0]}{"*" if ref[1] else ""}'
        return None

    def oracle_rawop(self, case, obs):
        s, o = case['s'], case['other']
        tags = [int(frac(c['data'][0])) for c in s['comps']]
        if o['o'] == 'stokes' and o['kind'] == s['kind']:
            otags = [int(frac(c['data'][0])) for c in o['comps']]
        elif o['o'] == 'val':
            otags = ['str' if o['v']['t'] == 'str' else int(frac(o['v']['data'][0]))] * len(tags)
        else:
            if obs.get('ok') != 'NotImplemented':
                return f'_operation/_roperation with an unsupported operand returned {obs}, expected NotImplemented'
            return None
        exp = [[a, b] if case['fwd'] else [b, a] for a, b in zip(tags, otags)]
        if obs.get('ok') != s['kind'] or obs.get('calls') != exp:
            return f'leaf function called on {obs.get("calls")} (result {obs.get("ok", obs.get("err"))}), expected {exp} in a {s["kind"]} container'
        return None

    def _mapped(self, case, obs, f, what):
        """Every component of the result is f(component) (f on exact object arrays; raises -> error)."""
        import numpy as np

        s = case['s']
        try:
            exp = [np.asarray(f(np_exact(c)), dtype=object) for c in s['comps']]
        except (ValueError, IndexError, TypeError):
            if 'err' not in obs:
                return f'{what}: NumPy rejects it on a component but a result was returned'
            return None
        if 'err' in obs:
            return f'{what}: raised {obs["err"]}'
        res = obs['ok']
        if res.get('kind') != s['kind'] or len(res['comps']) != len(exp):
            return f'{what}: result is {res.get("kind", res)}, expected a {s["kind"]} container'
        for c, (e, got, src) in enumerate(zip(exp, res['comps'], s['comps'])):
            msg = leaf_matches(got, e.shape, list(e.ravel()), canon_dt(src['dt'], bool(case.get('x64'))))
            if msg:
                return f'{what}: component {s["kind"][c]}: {msg}'
        return None

    def oracle_unary(self, case, obs):
        if case['op'] == 'pos' and obs.get('same_object') is not True:
            return '+s is not s'
        f = {'neg': lambda a: -a, 'abs': lambda a: abs(a), 'pos': lambda a: a}[case['op']]
        return self._mapped(case, obs, f, case['op'])

    def oracle_ravel(self, case, obs):
        return self._mapped(case, obs, lambda a: a.ravel(), 'ravel')

    def oracle_reshape(self, case, obs):
        return self._mapped(case, obs, lambda a: a.reshape(case['new']), f'reshape({case["new"]} as {case.get("form", "tuple")})')

    def oracle_getitem(self, case, obs):
        import numpy as np

        ix = case['index']
        index = ix[1] if ix[0] == 'int' else slice(ix[1], ix[2]) if ix[0] == 'slice' else np.array(ix[1], dtype=int)
        return self._mapped(case, obs, lambda a: a[index], f'[{ix}]')

    def oracle_index(self, case, obs):
        index = py_index(case['index'], reference=True)
        return self._mapped(case, obs, lambda a: a[index], f'{case["s"]["comps"][0]["shape"]}-shaped components{show_index(case["index"])} ({case["cls"]})')

    def oracle_matmul(self, case, obs):
        l, r = case['l'], case['r']
        if l['o'] == 'stokes' and r['o'] == 'stokes' and l['kind'] == r['kind']:
            exp = sum((complex(a[0], -a[1]) * complex(b[0], b[1]) for x, y in zip(l['comps'], r['comps']) for a, b in zip(x['data'], y['data'])), 0j)
            got = obs.get('ok', {}).get('data', [None])[0]
            if got != [int(exp.real), int(exp.imag)] and got != lib.canon([int(exp.real), int(exp.imag)]):
                return f'a @ b = {got}, expected sum conj(a) b = {[exp.real, exp.imag]}'
            return None
        if obs.get('err') != 'TypeError':
            return f'@ with an operand that is not a container of the same kind: expected TypeError, got {obs}'
        return None

    def oracle_class_for(self, case, obs):
        if case['name'] in KINDS:
            return None if obs.get('ok') == case['name'] else f'class_for({case["name"]!r}) -> {obs}'
        return None if obs.get('err') == 'ValueError' else f'class_for({case["name"]!r}) -> {obs}, expected ValueError'

    def oracle_factory(self, case, obs):
        x64 = bool(case.get('x64'))
        which, kind, shape = case['which'], case['stokes'], case['shape']
        raw = {'pyfloat': 'f64', 'pyint': 'i64', 'pycomplex': 'c128', None: 'f64'}.get(case['dt'], case['dt'])
        dt = canon_dt(raw, x64)
        what = f'{kind}.{which}({shape}, {case["dt"]})'
        if which == 'normal' and not (dt in MANT or dt[0] == 'c') or which == 'uniform' and dt not in MANT:
            return None if 'err' in obs else f'{what}: a distribution over {dt} was accepted'
        if 'err' in obs:
            return f'{what}: raised {obs["err"]}'
        res = obs['ok']
        if res.get('kind') != kind or len(res['comps']) != len(kind):
            return f'{what}: result {res.get("kind", res)}'
        for c, got in enumerate(res['comps']):
            if list(got['shape']) != list(shape):
                return f'{what}: component {kind[c]} has shape {got["shape"]}'
            if which == 'structure_for':
                if not got.get('sds') or got['dt'] != raw:
                    return f'{what}: component {kind[c]} is {got}'
                continue
            if got['dt'] != dt:
                return f'{what}: component {kind[c]} has dtype {got["dt"]}, expected {dt}'
            if which in ('normal', 'uniform'):
                if got['key'] != c:
                    return f'{what}: component {kind[c]} is drawn with sub-key {got["key"]}, expected its own sub-key {c}'
                if which == 'uniform' and not got.get('in_range', True):
                    return f'{what}: component {kind[c]} leaves the requested range'
            else:
                fill = {'zeros': 0, 'ones': 1}.get(which, case.get('fill'))
                fillv = frac(fill)
                if dt[0] == 'i':
                    fillv = Fraction(int(fillv))
                msg = leaf_matches(got, shape, [fillv] * prod(shape))
                if msg:
                    return f'{what}: component {kind[c]}: {msg}'
        return None

    def _promoted_ok(self, what, leaves_in, comps, ref, x64):
        if 'err' in ref:
            return None
        for v, got in zip(leaves_in, comps):
            if v['t'] == 'sds':
                if not got.get('sds') or got['dt'] != ref['ok'] or list(got['shape']) != list(v['shape']):
                    return f'{what}: structure leaf {v} became {got}, expected dtype {ref["ok"]}'
            elif v['t'] == 'arr':
                if got.get('dt') != ref['ok']:
                    return f'{what}: leaf of dtype {v["dt"]} became {got.get("dt", got)}, expected the common dtype {ref["ok"]}'
                vals = [frac(x) for x in v['data']]
                if ref['ok'] == 'b':
                    vals = [Fraction(int(x != 0)) for x in vals]
                msg = leaf_matches(got, v['shape'], vals)
                if msg:
                    return f'{what}: {msg}'
        return None

    def oracle_from_stokes(self, case, obs):
        args, kw = case['args'], case['kw']
        what = f'from_stokes({len(args)} positional, keywords {[k for k, _ in kw]})'
        if args and kw:
            return None if obs.get('err') == 'TypeError' else f'{what}: expected TypeError, got {obs}'
        if kw:
            name = ''.join(sorted(k for k, _ in kw))
            if name not in KINDS or sorted(k for k, _ in kw) != list(name):
                return None if 'err' in obs else f'{what}: accepted'
            chosen = [dict(kw)[k] for k in name]
        else:
            chosen = args
        if not 1 <= len(chosen) <= 4:
            return None if 'err' in obs else f'{what}: accepted'
        if 'err' in obs:
            return f'{what}: raised {obs["err"]}'
        if obs['ok'].get('kind') != KINDS[len(chosen) - 1]:
            return f'{what}: built {obs["ok"].get("kind")}'
        return self._promoted_ok(what, chosen, obs['ok']['comps'], obs['ref'], bool(case.get('x64')))

    def oracle_from_iquv(self, case, obs):
        kind = case['stokes']
        what = f'{kind}.from_iquv'
        chosen = [case['args']['IQUV'.index(c)] for c in kind]
        if 'err' in obs:
            return f'{what}: raised {obs["err"]}'
        if obs['ok'].get('kind') != kind:
            return f'{what}: built {obs["ok"].get("kind")}'
        if kind == 'I':
            return None
        for v, got in zip(chosen, obs['ok']['comps']):
            if v['t'] == 'arr' and 'data' in got:
                msg = leaf_matches(got, v['shape'], [frac(x) for x in v['data']])
                if msg:
                    return f'{what}: {msg}'
        dts = {c.get('dt') for c in obs['ok']['comps']}
        return None if len(dts) == 1 else f'{what}: components have different dtypes {sorted(dts)}'

    def oracle_dot(self, case, obs):
        def flat(t, path=()):
            if 'leaf' in t:
                return [(path, t['leaf'])]
            cs = t['cs']
            ks = t.get('keys')
            items = sorted(zip(ks, cs), key=lambda p: p[0]) if ks is not None else list(enumerate(cs))
            return [(path + (t['n'], len(cs)), None)] + [x for k, c in items for x in flat(c, path + (t['n'], k))]

        fx, fy = flat(case['x']), flat(case['y'])
        same = [p for p, _ in fx] == [p for p, _ in fy]
        sizes = same and all(v is None or len(v['data']) == len(w['data']) for (_, v), (_, w) in zip(fx, fy))
        if not (same and sizes):
            return None if 'err' in obs else f'dot of mismatching trees returned {obs}'
        if 'err' in obs:
            return f'dot raised {obs["err"]}'
        exp = sum((complex(a[0], -a[1]) * complex(b[0], b[1]) for (_, v), (_, w) in zip(fx, fy) if v is not None for a, b in zip(v['data'], w['data'])), 0j)
        got = obs['ok']['data'][0]
        if [Fraction(got[0]) if not isinstance(got[0], str) else got[0], got[1]] != [int(exp.real), int(exp.imag)] and lib.canon(got) != [int(exp.real), int(exp.imag)]:
            return f'dot = {got}, expected the Hermitian sum {[exp.real, exp.imag]} (conjugate on the first argument)'
        return None

    def oracle_helper(self, case, obs):
        x64 = bool(case.get('x64'))
        which, tree = case['which'], case['tree']
        what = f'{which}({case["name"]})'
        if which == 'is_leaf':
            exp = 'leaf' in tree or not tree['cs']
            return None if obs.get('ok') == exp else f'{what} = {obs.get("ok")}'

        def pairs(t, o):
            """(input leaf, output leaf) in order, or a message when the structures differ."""
            if 'leaf' in t:
                return [(t['leaf'], o['leaf'])] if 'leaf' in o else 'a leaf became a container'
            kind = {'list': 'KList', 'tuple': 'KTuple', 'dict': 'KDict', 'none': 'KOther', 'stokes': 'KStokes'}[t['n']]
            if o.get('n') != kind or len(o.get('cs', [])) != len(t['cs']):
                return f'container {t["n"]} of {len(t["cs"])} became {o.get("n")} of {len(o.get("cs", []))}'
            cs = t['cs']
            if t['n'] == 'dict':
                if sorted(t['keys']) != o.get('keys'):
                    return f'dict keys {t["keys"]} became {o.get("keys")}'
                cs = [c for _, c in sorted(zip(t['keys'], cs), key=lambda p: p[0])]
            out = []
            for c, oc in zip(cs, o['cs']):
                r = pairs(c, oc)
                if isinstance(r, str):
                    return r
                out += r
            return out

        def leaves(t):
            if 'leaf' in t:
                return [t['leaf']]
            cs = t['cs'] if t['n'] != 'dict' else [c for _, c in sorted(zip(t['keys'], t['cs']), key=lambda p: p[0])]
            return [x for c in cs for x in leaves(c)]

        lv = leaves(tree)
        proper = all(v['t'] != 'str' for v in lv)
        has_shape = all(v['t'] != 'str' and v.get('form') != 'py' for v in lv)
        if which == 'promoted':
            if not proper:
                return None
            if 'err' in obs:
                return f'{what}: raised {obs["err"]}' + (' on a tree without leaves' if not lv else '')
            ps = pairs(tree, obs['ok'])
            if isinstance(ps, str):
                return f'{what}: {ps}'
            return self._promoted_ok(what, [a for a, _ in ps], [b for _, b in ps], obs['ref'], x64) if lv else None
        if which == 'structure':
            if not proper:
                return None
            if 'err' in obs:
                return f'{what}: raised {obs["err"]}'
            ps = pairs(tree, obs['ok'])
            if isinstance(ps, str):
                return f'{what}: {ps}'
            for v, got in ps:
                dt, weak = eff_ty(v, x64) if v['t'] == 'arr' else (canon_dt(v['dt'], x64), v.get('weak', False))
                if not got.get('sds') or list(got['shape']) != list(v['shape']) or got['dt'] != dt or got['weak'] != weak:
                    return f'{what}: leaf {v["shape"]}/{dt} became {got}'
            return None
        if not has_shape:
            return None
        dist = which in ('normal_like', 'uniform_like')
        if dist:
            ok = lambda d: d in MANT or (which == 'normal_like' and d[0] == 'c')  # noqa: E731
            if not all(ok(canon_dt(v['dt'], x64)) for v in lv):
                return None if 'err' in obs else f'{what}: accepted a dtype the distribution does not support'
        if 'err' in obs:
            return f'{what}: raised {obs["err"]}'
        ps = pairs(tree, obs['ok'])
        if isinstance(ps, str):
            return f'{what}: {ps}'
        fill = frac({'zeros_like': 0, 'ones_like': 1}.get(which, case.get('fill', 0)))
        for j, (v, got) in enumerate(ps):
            dt = canon_dt(v['dt'], x64)
            if list(got.get('shape', [None])) != list(v['shape']) or got.get('dt') != dt:
                return f'{what}: leaf {v["shape"]}/{dt} became {got.get("shape")}/{got.get("dt")}'
            if dist:
                if got['key'] != j:
                    return f'{what}: leaf {j} is drawn with sub-key {got["key"]}'
            else:
                fv = Fraction(int(fill != 0)) if dt == 'b' else fill
                msg = leaf_matches(got, v['shape'], [fv] * prod(v['shape']))
                if msg:
                    return f'{what}: {msg}'
        return None

    def finding_key(self, case, obs):
        if case['kind'] == 'helper' and case['which'] == 'promoted' and case['name'] in ('empty-list', 'empty-dict', 'empty-tuple', 'none', 'nested-empty'):
            return 'as-promoted-dtype-tree-without-leaves'
        if case['kind'] == 'index':  # one replay per class of index expression and component rank
            return f'index/{case["cls"]}/rank{len(case["s"]["comps"][0]["shape"])}'
        return case.get('key')


if __name__ == '__main__':
    if '--worker' in sys.argv:
        worker_main()
