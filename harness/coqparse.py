"""Parser for values printed by Coq's `Eval vm_compute in <term>.`

Whitespace-insensitive, so Coq's line wrapping is irrelevant.  Supported syntax:
numbers (with optional %scope suffix), "strings" (with "" escapes), lists [a; b], tuples (a, b),
parenthesised terms, constructor applications (Ctor a b), rationals `n # d`.

Python representation: int, str (for Coq strings), list, tuple, Fraction (for `#`),
bool for true/false, None for `None`, ('Some', x) is unwrapped to {'c': 'Some', 'a': [x]} like any
other constructor application {'c': name, 'a': [args...]}; a bare constructor is {'c': name, 'a': []}.
"""
from __future__ import annotations

import re
from fractions import Fraction

_TOKEN = re.compile(
    r'\s*(?:(?P<num>-?\d+)|(?P<str>"(?:[^"]|"")*")|(?P<id>[A-Za-z_][A-Za-z_0-9\.\']*)'
    r'|(?P<sym>\[|\]|\(|\)|;|,|#|%))'
)


def tokenize(text: str) -> list[tuple[str, str]]:
    pos = 0
    out = []
    n = len(text)
    while pos < n:
        m = _TOKEN.match(text, pos)
        if not m:
            if text[pos:].strip() == '':
                break
            raise ValueError(f'cannot tokenize Coq output at {text[pos:pos + 40]!r}')
        pos = m.end()
        kind = m.lastgroup
        out.append((kind, m.group(kind)))
    return out


class _P:
    def __init__(self, toks):
        self.t = toks
        self.i = 0

    def peek(self):
        return self.t[self.i] if self.i < len(self.t) else (None, None)

    def next(self):
        tok = self.peek()
        self.i += 1
        return tok

    def term(self):
        left = self.app()
        if self.peek() == ('sym', '#'):
            self.next()
            right = self.app()
            return Fraction(left, right)
        return left

    def app(self):
        kind, val = self.peek()
        head = self.atom()
        if kind == 'id' and isinstance(head, dict):
            args = []
            while True:
                k, v = self.peek()
                if k in ('num', 'str', 'id') or (k == 'sym' and v in ('[', '(')):
                    args.append(self.atom())
                else:
                    break
            head = {'c': head['c'], 'a': args}
            return _simplify(head)
        return head

    def atom(self):
        kind, val = self.next()
        if kind == 'num':
            r = int(val)
            self._scope()
            return r
        if kind == 'str':
            return val[1:-1].replace('""', '"')
        if kind == 'id':
            return _simplify({'c': val, 'a': []})
        if kind == 'sym' and val == '[':
            items = []
            if self.peek() == ('sym', ']'):
                self.next()
                self._scope()
                return items
            while True:
                items.append(self.term())
                k, v = self.next()
                if (k, v) == ('sym', ']'):
                    break
                if (k, v) != ('sym', ';'):
                    raise ValueError(f'expected ; or ] got {v!r}')
            self._scope()
            return items
        if kind == 'sym' and val == '(':
            items = [self.term()]
            while True:
                k, v = self.next()
                if (k, v) == ('sym', ')'):
                    break
                if (k, v) != ('sym', ','):
                    raise ValueError(f'expected , or ) got {v!r}')
                items.append(self.term())
            self._scope()
            if len(items) == 1:
                return items[0]
            return tuple(items)
        raise ValueError(f'unexpected token {val!r}')

    def _scope(self):
        if self.peek() == ('sym', '%'):
            self.next()
            self.next()


def _simplify(d):
    if not d['a']:
        if d['c'] == 'true':
            return True
        if d['c'] == 'false':
            return False
        if d['c'] == 'None':
            return None
    return d


def parse_term(text: str):
    p = _P(tokenize(text))
    r = p.term()
    if p.i != len(p.t):
        raise ValueError(f'trailing tokens in Coq output: {p.t[p.i:p.i + 5]}')
    return r


_EVAL = re.compile(r'^\s*= (.*?)^\s*: ', re.S | re.M)


def parse_evals(output: str) -> list:
    """All values printed by the `Eval ... in` commands of one coqc run, in order."""
    return [parse_term(m.group(1)) for m in _EVAL.finditer(output)]


def ctor(x):
    """('Name', args) view of a constructor application (or (None, None))."""
    if isinstance(x, dict) and 'c' in x:
        return x['c'], x['a']
    return None, None
