"""Common machinery for the furax property checks (see /verif/DESIGN.md section 2).

A property module (harness/cXX.py) exposes a class `Check(PropertyCheck)`; `main.py` drives it:
translate -> prove -> correspond (implementation vs model) -> oracle on the implementation ->
evidence / VIOLATION / KNOWN-FINDING.
"""
from __future__ import annotations

import fcntl
import hashlib
import json
import os
import random
import re
import shutil
import subprocess
import sys
import time
import traceback
from concurrent.futures import ThreadPoolExecutor
from pathlib import Path

import coqparse

VERIF = Path(os.environ.get('VERIF_ROOT') or Path(__file__).resolve().parents[1])
REPO = Path(os.environ.get('FURAX_REPO', '/repo'))
COQ = VERIF / 'coq'
THEORIES = COQ / 'theories'
WORK = Path(os.environ.get('VERIF_WORK_DIR') or (VERIF / '.work'))
# mutant trials (tools/try_mutant.sh) redirect these so that the committed evidence always comes from /repo itself
EVIDENCE = Path(os.environ.get('VERIF_EVIDENCE_DIR') or VERIF / 'evidence')
REPLAYS = Path(os.environ.get('VERIF_REPLAYS_DIR') or VERIF / 'replays')
KNOWN = VERIF / 'KNOWN_FINDINGS.txt'
NCPU = os.cpu_count() or 4
# more than ~4 concurrent coqc processes thrash in this sandbox (measured: -P13 is 3x slower than -P4)
COQ_WORKERS = int(os.environ.get("VERIF_COQ_WORKERS", "4"))

FORBIDDEN = re.compile(
    r'\b(Admitted|admit|Axiom|Axioms|Parameter|Parameters|Conjecture|Unset\s+Guard\s+Checking|'
    r'bypass_check|Admit\s+Obligations|Unset\s+Positivity\s+Checking|Unset\s+Universe\s+Checking|'
    r'native_compute)\b'
)

KERNEL_TB = [
    'Coq 8.16.1 kernel (coqc, full .vo build, no -vos/-vok), including its vm_compute reduction '
    'machine; native_compute is not used',
    'no Axiom/Parameter/Conjecture/Admitted/admit in /verif/coq (grep is part of every check); guard, '
    'positivity and universe checks untouched',
]


class Tie(Exception):
    """A tie between model and source that no longer checks (translator refusal, proof failure)."""


# ----------------------------------------------------------------------------------------------
# Coq plumbing


def sh(cmd, timeout=600, cwd=None, env=None):
    p = subprocess.run(cmd, cwd=cwd, env=env, capture_output=True, text=True, timeout=timeout)
    return p.returncode, p.stdout, p.stderr


def ensure_static_build(targets: list[str] | None = None) -> None:
    """Build (under a lock) the static .vo files a property needs: `targets` are paths relative to
    /verif/coq such as theories/Lemmas/ConfigL.vo (None: everything in _CoqProject)."""
    WORK.mkdir(exist_ok=True)
    with open(WORK / 'build.lock', 'w') as lock:
        fcntl.flock(lock, fcntl.LOCK_EX)
        # builders append files to _CoqProject before they exist: build from the existing ones only
        lines = []
        for ln in (COQ / '_CoqProject').read_text().splitlines():
            t = ln.strip()
            if t.endswith('.v') and not (COQ / t).exists():
                continue
            lines.append(ln)
        text = '\n'.join(lines) + '\n'
        proj = COQ / '_CoqProject.build'
        if not proj.exists() or proj.read_text() != text or not (COQ / 'Makefile').exists():
            proj.write_text(text)
            rc, out, err = sh(['coq_makefile', '-f', '_CoqProject.build', '-o', 'Makefile'], cwd=COQ)
            if rc:
                raise RuntimeError('coq_makefile failed: ' + err)
        rc, out, err = sh(["make", "-j6"] + list(targets or []), cwd=COQ, timeout=3000)
        if rc:
            raise Tie('static Coq build failed:\n' + (out + err)[-3000:])


def coqc(path: Path, gen_dir: Path | None = None, timeout=600):
    cmd = ['coqc', '-q', '-Q', str(THEORIES), 'Furax']
    if gen_dir is not None:
        cmd += ['-Q', str(gen_dir), 'FuraxGen']
    cmd.append(str(path))
    try:
        rc, out, err = sh(cmd, timeout=timeout, cwd=path.parent)
    except subprocess.TimeoutExpired:
        return 124, '', f'coqc timed out after {timeout}s on {path}'
    return rc, out, err


def grep_forbidden() -> list[str]:
    """Forbidden declarations anywhere in the development, and Variable/Hypothesis/Context outside a Section."""
    hits = []
    sec = re.compile(r'^\s*Section\s+([A-Za-z_0-9\']+)\s*\.')
    end = re.compile(r'^\s*End\s+([A-Za-z_0-9\']+)\s*\.')
    var = re.compile(r'^\s*(Variable|Variables|Hypothesis|Hypotheses|Context)\b')
    for p in list(THEORIES.rglob('*.v')):
        text = re.sub(r'\(\*.*?\*\)', lambda m: '\n' * m.group(0).count('\n'), p.read_text(), flags=re.S)
        open_sections: list[str] = []
        for i, line in enumerate(text.splitlines(), 1):
            if FORBIDDEN.search(line):
                hits.append(f'{p}:{i}: {line.strip()}')
            m = sec.match(line)
            if m:
                open_sections.append(m.group(1))
                continue
            m = end.match(line)
            if m and open_sections and open_sections[-1] == m.group(1):
                open_sections.pop()
                continue
            if var.match(line) and not open_sections:
                hits.append(f'{p}:{i}: outside any Section: {line.strip()}')
    return hits


_THM = re.compile(r'^\s*(Theorem|Lemma|Example|Corollary|Fact)\s+([A-Za-z_0-9\']+)', re.M)


class ProofResult:
    def __init__(self):
        self.obligations: list[str] = []
        self.discharged: list[str] = []
        self.assumptions: dict[str, str] = {}
        self.failed: str | None = None
        self.error: str = ''
        self.files: list[str] = []


def compile_props(workdir: Path, gen_dir: Path | None, files: list[Path]) -> ProofResult:
    """Compile the property files (statements + `exact lemma` + Print Assumptions) in order."""
    res = ProofResult()
    for src in files:
        dst = workdir / src.name
        shutil.copy(src, dst)
        text = src.read_text()
        names = [m.group(2) for m in _THM.finditer(re.sub(r'\(\*.*?\*\)', '', text, flags=re.S))]
        res.obligations += names
        res.files.append(str(src))
        if res.failed:
            continue
        rc, out, err = coqc(dst, gen_dir)
        if rc != 0:
            # locate the failing theorem from the error position
            m = re.search(r'line (\d+), characters', err)
            fail_line = int(m.group(1)) if m else 10**9
            last = None
            for mm in _THM.finditer(text):
                line = text.count('\n', 0, mm.start()) + 1
                if line <= fail_line:
                    last = mm.group(2)
            res.failed = f'{src.name}:{last or "?"}'
            res.error = err[-2000:]
            for mm in _THM.finditer(text):
                line = text.count('\n', 0, mm.start()) + 1
                if line < fail_line and mm.group(2) != last:
                    res.discharged.append(mm.group(2))
            continue
        res.discharged += names
        # Print Assumptions output, in file order
        pa = re.findall(r'Print Assumptions\s+([A-Za-z_0-9\'\.]+)\s*\.', text)
        chunks = re.split(r'(?=Closed under the global context|Axioms:)', out)
        chunks = [c.strip() for c in chunks if c.strip().startswith(('Closed', 'Axioms:'))]
        for name, chunk in zip(pa, chunks):
            res.assumptions[name] = ' '.join(chunk.split())[:600]
    return res


def eval_model(
    workdir: Path,
    gen_dir: Path | None,
    header: str,
    terms: list[str],
    shard: int = 250,
    timeout: int = 900,
    tag: str = 'cases',
) -> list:
    """Evaluate Coq terms with vm_compute (sharded over the cores); one parsed value per term."""
    shards = [terms[i : i + shard] for i in range(0, len(terms), shard)]
    paths = []
    for k, chunk in enumerate(shards):
        p = workdir / f'{tag}_{k}.v'
        body = [header, 'Set Printing Depth 10000000.', 'Set Printing Width 2000.']
        for t in chunk:
            body.append(f'Eval vm_compute in ({t}).')
        p.write_text('\n'.join(body) + '\n')
        paths.append(p)

    def run(p):
        rc, out, err = coqc(p, gen_dir, timeout=timeout)
        if rc != 0:
            raise Tie(f'model evaluation failed in {p.name}: {err[-1500:]}')
        return coqparse.parse_evals(out)

    results = []
    with ThreadPoolExecutor(max_workers=COQ_WORKERS) as ex:
        for chunk, vals in zip(shards, ex.map(run, paths)):
            if len(vals) != len(chunk):
                raise Tie(f'model evaluation returned {len(vals)} values for {len(chunk)} terms')
            results += vals
    for p in paths:
        for suffix in ('.v', '.vo', '.glob', '.vok', '.vos'):
            q = p.with_suffix(suffix)
            if q.exists():
                q.unlink()
        aux = p.parent / ('.' + p.stem + '.aux')
        if aux.exists():
            aux.unlink()
    return results


# ----------------------------------------------------------------------------------------------
# Coq term printers for case data


def cz(n) -> str:
    n = int(n)
    return f'({n})' if n < 0 else str(n)


def cnat(n) -> str:
    return f'{int(n)}%nat'


def cbool(b) -> str:
    return 'true' if b else 'false'


def clist(items, f=str) -> str:
    return '[' + '; '.join(f(i) for i in items) + ']'


def cstr(s: str) -> str:
    return '"' + s.replace('"', '""') + '"%string'


def copt(x, f=str) -> str:
    return 'None' if x is None else f'(Some {f(x)})'


def cq(fr) -> str:
    from fractions import Fraction

    fr = Fraction(fr)
    return f'(({fr.numerator}) # {fr.denominator})%Q'


# ----------------------------------------------------------------------------------------------
# known findings, evidence, replays


def known_findings() -> list[dict]:
    out = []
    if not KNOWN.exists():
        return out
    for line in KNOWN.read_text().splitlines():
        line = line.strip()
        if not line or line.startswith('#') or line.startswith('fixed:'):
            continue
        m = re.match(r'property=(C\d+)\s+key=(\S+)\s+(.*)', line)
        if m:
            out.append({'property': m.group(1), 'key': m.group(2), 'what': m.group(3)})
    return out


def write_json(path: Path, obj) -> None:
    path.parent.mkdir(parents=True, exist_ok=True)
    tmp = path.with_suffix(path.suffix + '.tmp')
    tmp.write_text(json.dumps(obj, indent=1, default=str) + '\n')
    tmp.replace(path)


def pub(case):
    """The case without harness-private keys (those starting with an underscore)."""
    if isinstance(case, dict):
        return {k: v for k, v in case.items() if not str(k).startswith('_')}
    return case


def case_id(case) -> str:
    return hashlib.sha1(json.dumps(pub(case), sort_keys=True, default=str).encode()).hexdigest()[:12]


class PropertyCheck:
    """Base class of a property check; subclasses fill in the hooks."""

    id = 'C00'
    props: list[str] = []  # files under coq/theories/Props compiled on every run
    static_targets: list[str] | None = None  # e.g. ['theories/Lemmas/ConfigL.vo'] (None: all)
    coq_header = ''  # imports for model evaluation
    partial: str | None = None  # unproved clause, if the property is only partially proved
    trusted: list[str] = []  # property-specific trusted base
    shard = 250

    def __init__(self, tier: str, seed: int):
        self.tier = tier
        self.seed = seed
        self.rng = random.Random(seed)
        self.workdir = WORK / self.id
        self.gen_dir = self.workdir / 'gen'
        self.notes: list[str] = []
        self.stats: dict = {}

    # hooks ------------------------------------------------------------------------------------
    def translate(self) -> None:
        """Regenerate Gen/*.v from /repo into self.gen_dir (raise Tie when the source is refused)."""

    def gen_files(self) -> list[str]:
        """Names (in dependency order) of the generated files to compile before the props."""
        return []

    def cases(self) -> list[dict]:
        return []

    def run_impl(self, case: dict):
        """Observation of the real code on the case (JSON-able, canonical)."""
        raise NotImplementedError

    def model_term(self, case: dict) -> str | None:
        """Coq term whose vm_compute value is the model's observation (None: no model run)."""
        return None

    def decode(self, case: dict, value):
        """Parsed Coq value -> observation comparable with run_impl's."""
        return value

    def oracle(self, case: dict, obs) -> str | None:
        """The property evaluated directly on the implementation's observation; a message on failure."""
        return None

    def comparable(self, case: dict, obs):
        """The part of the implementation's observation that the model also produces."""
        return obs

    def rule(self) -> str:
        return 'cases enumerated/sampled by the property module; distinct by canonical JSON of the case'

    def search_cases(self):
        """Wider input stream for the failing-input search when a tie is broken."""
        if self.tier == 'quick':
            other = type(self)('thorough', self.seed)
            return other.cases()
        return []

    def nontrivial(self, case: dict, obs) -> bool:
        return True

    def finding_key(self, case: dict, obs) -> str | None:
        """Canonical key of the input class, matched against KNOWN_FINDINGS.txt."""
        return case.get('key')

    def extra(self) -> dict:
        """Additional numerical tests for partial properties (reported separately)."""
        return {}

    def shrink(self, case: dict, failing) -> dict:
        return case

    def distribution(self, cases) -> dict:
        d: dict = {}
        for c in cases:
            k = c.get('kind', 'case')
            d[k] = d.get(k, 0) + 1
        return d


def canon(x):
    """Canonical JSON-able form used to compare observations."""
    from fractions import Fraction

    if isinstance(x, Fraction):
        return int(x) if x.denominator == 1 else f'{x.numerator}/{x.denominator}'
    if isinstance(x, (list, tuple)):
        return [canon(i) for i in x]
    if isinstance(x, dict):
        return {str(k): canon(v) for k, v in x.items()}
    if isinstance(x, bool) or x is None or isinstance(x, (int, str)):
        return x
    if isinstance(x, float):
        if x == int(x) and abs(x) < 2**53:
            return int(x)
        fr = Fraction(x)
        return f'{fr.numerator}/{fr.denominator}'
    try:
        import numpy as np

        if isinstance(x, np.generic):
            return canon(x.item())
        if isinstance(x, np.ndarray):
            return canon(x.tolist())
    except ImportError:
        pass
    return str(x)
