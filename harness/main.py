"""Driver: ./check Cxx [--tier quick|thorough] [--replay file]   (see DESIGN.md section 2)."""
from __future__ import annotations

import argparse
import importlib
import json
import os
import shutil
import sys
import time
import traceback
from pathlib import Path

sys.path.insert(0, str(Path(__file__).parent))

import lib  # noqa: E402
from lib import Tie  # noqa: E402


def load(prop: str, tier: str, seed: int) -> lib.PropertyCheck:
    mod = importlib.import_module(prop.lower())
    return mod.Check(tier, seed)


def main() -> int:
    ap = argparse.ArgumentParser()
    ap.add_argument('prop')
    ap.add_argument('--tier', default=os.environ.get('VERIF_TIER', 'quick'))
    ap.add_argument('--replay')
    ap.add_argument('--no-model', action='store_true', help='debug: skip the Coq side')
    args = ap.parse_args()
    tier = args.tier if args.tier in ('quick', 'thorough') else 'quick'
    seed = int(os.environ.get('VERIF_SEED', '0') or 0)
    chk = load(args.prop, tier, seed)
    if args.replay:
        return replay(chk, Path(args.replay))
    return run(chk, no_model=args.no_model)


def _one(chk, c):
    try:
        return lib.canon(chk.run_impl(c))
    except Exception as e:  # a harness crash is reported, never swallowed
        return {'harness_error': f'{type(e).__name__}: {e}', 'tb': traceback.format_exc()[-1500:]}


def _worker(args):
    prop, tier, seed, idx = args
    chk = load(prop, tier, seed)
    cases = chk.cases()
    out = []
    for i in idx:
        c = cases[i]
        obs = _one(chk, c)
        out.append((i, obs, {k: v for k, v in c.items() if str(k).startswith('_')}))
    return out


def run_impl_all(chk, cases):
    """Runs the real code on every case; in worker processes when the check asks for it
    (cases() is deterministic in (tier, seed), so workers regenerate the same list)."""
    nproc = getattr(chk, 'workers', 1)
    if nproc <= 1 or len(cases) < 64:
        return [_one(chk, c) for c in cases]
    import multiprocessing as mp
    from concurrent.futures import ProcessPoolExecutor

    chunks = [list(range(k, len(cases), nproc)) for k in range(nproc)]
    impl_obs = [None] * len(cases)
    with ProcessPoolExecutor(max_workers=nproc, mp_context=mp.get_context('spawn')) as ex:
        for part in ex.map(_worker, [(chk.id, chk.tier, chk.seed, ch) for ch in chunks]):
            for i, obs, private in part:
                impl_obs[i] = obs
                cases[i].update(private)
    return impl_obs


def replay(chk, path: Path) -> int:
    doc = json.loads(path.read_text())
    case = doc.get('case')
    if case is None:
        print(f'replay {path}: no failing input recorded; broken tie: {doc.get("broken_tie")}')
        return 1
    obs = chk.run_impl(case)
    msg = chk.oracle(case, obs)
    print(json.dumps({'case': case, 'observation': lib.canon(obs), 'oracle': msg}, indent=1)[:6000])
    if msg:
        print(f'VIOLATION property={chk.id} replay={path}')
        return 1
    print('property holds on the replayed input')
    return 0


def run(chk: lib.PropertyCheck, no_model=False) -> int:
    t0 = time.time()
    pid = chk.id
    if chk.workdir.exists():
        shutil.rmtree(chk.workdir)
    chk.gen_dir.mkdir(parents=True)
    broken: list[dict] = []  # ties that no longer check
    failures: list[dict] = []  # property failures on the implementation (with input)
    proof = lib.ProofResult()
    timing = {}

    # 0. hygiene of the development
    hits = lib.grep_forbidden()
    if hits:
        broken.append({'tie': 'hygiene', 'detail': hits[:5]})

    # 1-3. translate, prove
    if not no_model:
        try:
            t = time.time()
            lib.ensure_static_build(chk.static_targets)
            timing['static_build_s'] = round(time.time() - t, 1)
            t = time.time()
            chk.translate()
            for name in chk.gen_files():
                rc, out, err = lib.coqc(chk.gen_dir / name, chk.gen_dir)
                if rc:
                    raise Tie(f'generated file {name} does not compile: {err[-1500:]}')
            timing['translate_s'] = round(time.time() - t, 1)
            t = time.time()
            proof = lib.compile_props(
                chk.workdir, chk.gen_dir, [lib.THEORIES / 'Props' / f for f in chk.props]
            )
            timing['prove_s'] = round(time.time() - t, 1)
            if proof.failed:
                broken.append({'tie': 'theorem', 'name': proof.failed, 'detail': proof.error})
        except Tie as e:
            broken.append({'tie': 'translate/build', 'detail': str(e)[-3000:]})

    # 4. correspondence + oracle on the implementation
    t = time.time()
    cases = chk.cases()
    impl_obs = run_impl_all(chk, cases)
    timing['impl_s'] = round(time.time() - t, 1)

    t = time.time()
    model_obs = [None] * len(cases)
    compared = 0
    disagreements = []
    if not no_model and not any(b['tie'] == 'translate/build' for b in broken):
        idx = [(i, chk.model_term(c)) for i, c in enumerate(cases)]
        idx = [(i, tm) for i, tm in idx if tm is not None]
        try:
            vals = lib.eval_model(chk.workdir, chk.gen_dir, chk.coq_header, [tm for _, tm in idx], shard=chk.shard)
            for (i, _), v in zip(idx, vals):
                model_obs[i] = lib.canon(chk.decode(cases[i], v))
                compared += 1
                if model_obs[i] != chk.comparable(cases[i], impl_obs[i]):
                    disagreements.append(i)
        except Tie as e:
            broken.append({'tie': 'model-evaluation', 'detail': str(e)[-3000:]})
    timing['model_s'] = round(time.time() - t, 1)

    nontrivial = set()
    for i, c in enumerate(cases):
        obs = impl_obs[i]
        if isinstance(obs, dict) and 'harness_error' in obs:
            broken.append({'tie': 'harness', 'case': lib.pub(c), 'detail': obs})
            continue
        try:
            msg = chk.oracle(c, obs)
        except Exception as e:
            msg = None
            broken.append({'tie': 'harness-oracle', 'case': c, 'detail': f'{type(e).__name__}: {e}'})
        if msg:
            failures.append({'case': lib.pub(c), 'observation': obs, 'oracle': msg, 'key': chk.finding_key(c, obs), '_i': i})
        if chk.nontrivial(c, obs):
            nontrivial.add(lib.case_id(c))
    for i in disagreements:
        if not any(f.get('_i') == i for f in failures):
            broken.append(
                {
                    'tie': 'correspondence',
                    'case': lib.pub(cases[i]),
                    'implementation': chk.comparable(cases[i], impl_obs[i]),
                    'model': model_obs[i],
                }
            )

    # 5. partial-property numerical tests (testing, reported separately)
    extra = {}
    try:
        extra = chk.extra() or {}
    except Exception as e:
        broken.append({'tie': 'harness-extra', 'detail': f'{type(e).__name__}: {e}', 'tb': traceback.format_exc()[-1500:]})
    for f in extra.pop('failures', []):
        failures.append(f)

    # 6. a broken tie without a failing input: search the implementation with the oracle
    searched = 0
    if broken and not failures:
        budget = float(os.environ.get('VERIF_SEARCH_S', '240' if chk.tier == 'quick' else '1500'))
        t_search = time.time()
        try:
            for c in chk.search_cases():
                if time.time() - t_search > budget:
                    chk.notes.append(f'failing-input search stopped after {budget:.0f}s ({searched} inputs)')
                    break
                searched += 1
                obs = lib.canon(chk.run_impl(c))
                msg = chk.oracle(c, obs)
                if msg:
                    failures.append({'case': lib.pub(c), 'observation': obs, 'oracle': msg, 'key': chk.finding_key(c, obs)})
                    break
        except Exception as e:
            chk.notes.append(f'search aborted: {type(e).__name__}: {e}')

    # classify against the known findings
    known = [k for k in lib.known_findings() if k['property'] == pid]
    known_hit = {}
    new_failures = []
    for f in failures:
        k = next((k for k in known if k['key'] == f.get('key')), None)
        if k is not None:
            known_hit.setdefault(k['key'], (k, f))
        else:
            new_failures.append(f)

    lines = []
    exit_code = 0
    for key, (k, f) in known_hit.items():
        lines.append(f'KNOWN-FINDING: property={pid} {k["what"]}')
    seen_keys = set()
    lib.REPLAYS.mkdir(exist_ok=True)
    nrep = 0
    for f in new_failures:
        key = f.get('key') or lib.case_id(f['case'])
        if key in seen_keys or nrep >= 5:
            continue
        seen_keys.add(key)
        try:
            small = chk.shrink(f['case'], f)
        except Exception:
            small = f['case']
        path = lib.REPLAYS / f'{pid}-{lib.case_id(small)}.json'
        lib.write_json(
            path,
            {
                'property': pid,
                'tier': chk.tier,
                'seed': chk.seed,
                'case': small,
                'observation': f.get('observation'),
                'oracle': f.get('oracle'),
                'broken_ties': [_brief(b) for b in broken[:5]],
            },
        )
        lines.append(f'VIOLATION property={pid} replay={path}')
        nrep += 1
        exit_code = 1
    if broken and not new_failures:
        # a tie no longer checks and no failing input was found
        harness_only = all(b['tie'].startswith('harness') for b in broken)
        path = lib.REPLAYS / f'{pid}-broken-tie.json'
        lib.write_json(
            path,
            {
                'property': pid,
                'tier': chk.tier,
                'seed': chk.seed,
                'no_failing_input': True,
                'broken_tie': [_brief(b) for b in broken[:10]],
                'searched_inputs': searched + len(cases),
                'harness_only': harness_only,
            },
        )
        lines.append(f'VIOLATION property={pid} replay={path} no-failing-input-found')
        exit_code = 1

    # evidence
    tb = list(lib.KERNEL_TB) + list(chk.trusted)
    axioms = sorted({v for v in proof.assumptions.values()})
    coverage = {
        'obligations': len(proof.obligations),
        'discharged': len(proof.discharged),
        'checker_cmd': f'coqc -Q {lib.THEORIES} Furax -Q <gen> FuraxGen ' + ' '.join(chk.props),
        'trusted_base': tb,
        'theorems': proof.obligations,
        'print_assumptions': proof.assumptions,
        'axioms_summary': axioms,
        'evaluations': len(cases) + searched,
        'compared_with_model': compared,
        'disagreements': len(disagreements),
        'distinct_nontrivial': len(nontrivial),
        'rule': chk.rule(),
        'samples': [
            {'case': lib.pub(cases[i]), 'implementation': _clip(impl_obs[i]), 'model': _clip(model_obs[i])}
            for i in _sample_idx(len(cases))
        ],
        'distribution': chk.distribution(cases),
        'exhaustive': bool(getattr(chk, 'exhaustive', False)),
        'timing': timing,
        'generated_files': chk.gen_files(),
        'notes': chk.notes,
        'stats': chk.stats,
    }
    if chk.partial:
        coverage['partial_unproved_clause'] = chk.partial
    if extra:
        coverage['numerical_tests_not_proof'] = extra
    if known_hit:
        coverage['known_findings_reproduced'] = [k for k in known_hit]
    ev = {
        'property_id': pid,
        'tier': chk.tier,
        'seed': chk.seed,
        'level': 'proof',
        'coverage': coverage,
        'assumptions': tb + ([f'unproved (tested only): {chk.partial}'] if chk.partial else []),
        'wall_s': round(time.time() - t0, 1),
        'violations': len(new_failures) + (1 if (broken and not new_failures) else 0),
    }
    lib.write_json(lib.EVIDENCE / f'{pid}.json', ev)
    for ln in lines:
        print(ln)
    print(
        f'{pid} {chk.tier}: obligations {len(proof.discharged)}/{len(proof.obligations)}, cases {len(cases)}, '
        f'model-compared {compared}, disagreements {len(disagreements)}, oracle failures {len(failures)} '
        f'(known {len(failures) - len(new_failures)}), broken ties {len(broken)}, {ev["wall_s"]}s'
    )
    if broken:
        for b in broken[:3]:
            print('  broken tie:', json.dumps(_brief(b), default=str)[:600])
    return exit_code


def _brief(b):
    out = {}
    for k, v in b.items():
        s = v if isinstance(v, (dict, list)) else str(v)
        out[k] = _clip(s)
    return out


def _clip(x, n=1500):
    s = json.dumps(x, default=str)
    if len(s) <= n:
        return x
    return s[:n] + '...'


def _sample_idx(n, k=4):
    if n == 0:
        return []
    step = max(1, n // k)
    return list(range(0, n, step))[:k]


if __name__ == '__main__':
    sys.exit(main())
