"""Cases, implementation runner, model terms and oracles shared by C01 (reduce preserves the map)
and C07 (reduce reaches the normal form)."""
from __future__ import annotations

import sys
from pathlib import Path

import numpy as np

import alg_cases as G
import algebra as A
import lib
from lib import PropertyCheck, Tie

sys.path.insert(0, str(lib.VERIF / 'tools' / 'translate'))

# (the last two are operands of alg_cases.LET_EXT)
CONTEXT_OPS = ['A22', 'B22', 'A23', 'A32', 'A33', 'H2', 'I2', 'D2', 'W', 'Q3', 'Pl', 'Hs', 'Is', 'BD', 'BR', 'BC', 'X3u', 'X3r', 'P3', 'Hm3', 'R23', 'M23', 'A66', 'Hm12', 'Rm12T']


def build_expr(case, env):
    """The operator object of a case (real furax code).  ctx decides how the chain is embedded."""
    names = case['ops']
    ctx = case.get('ctx', 'comp')
    core = A.J()['core']
    blocks = A.J()['blocks']
    ops = [env[n] for n in names]
    if ctx == 'bare':
        return ops[0]
    if ctx == 'blockdiag1':
        return blocks.BlockDiagonalOperator({'only': core.CompositionOperator(ops)})
    if ctx == 'comp':
        return core.CompositionOperator(ops)
    if ctx == 'matmul':  # left-associated @
        r = ops[0]
        for o in ops[1:]:
            r = r @ o
        return r
    if ctx == 'rmatmul':  # right-associated @
        r = ops[-1]
        for o in reversed(ops[:-1]):
            r = o @ r
        return r
    if ctx == 'sum':
        c = core.CompositionOperator(ops)
        return core.AdditionOperator([c, core.CompositionOperator(list(ops))])
    if ctx == 'blockdiag':
        return blocks.BlockDiagonalOperator([core.CompositionOperator(ops), env['A22']])
    if ctx == 'blockrow-dict':
        c = core.CompositionOperator(ops)
        return blocks.BlockColumnOperator({'x': c, 'y': core.CompositionOperator(list(ops))})
    if ctx == 'T':
        return core.CompositionOperator(ops).T
    if ctx == 'nested':
        # a composition nested inside a composition (possible through the constructor only)
        return core.CompositionOperator([core.CompositionOperator(ops[:1]), core.CompositionOperator(ops[1:])])
    if ctx == 'sum1':
        return core.AdditionOperator([core.CompositionOperator(ops)])
    raise ValueError(ctx)


class ReduceBase(PropertyCheck):
    props_common = ['Tables.v']
    static_targets = ['theories/Model/Exec.vo', 'theories/Model/Pinned.vo', 'theories/Lemmas/TablesL.vo', 'theories/Lemmas/ReduceStructsL.vo', 'theories/Lemmas/ReduceTotalL.vo', 'theories/Lemmas/ExecFactsL.vo']
    coq_header = A.COQ_HEADER + 'From Furax Require Import Model.Wf Lemmas.ReduceStructsL Lemmas.ReduceTotalL Lemmas.ExecFactsL.\nFrom FuraxGen Require Import Tables.\n'
    shard = 120
    workers = 8
    want_normal_form = False  # C07's oracle input (reduces the result again, tries every rule on every pair)
    trusted_common = [
        'translator tools/translate/tables.py (rule registry, class hierarchy, method resolution and lineax tags read '
        'from the imported package; fails closed on unknown rules/classes); it also translates the body of '
        'AbstractBinaryRule.check statement by statement into Gallina (Props/Tables.v generic_check_as_modelled proves '
        'it equal to guard_ok for all guards and operands) from a small Python subset, refusing everything else; '
        'trusted there: `isinstance(x, self.C)` is only accepted where `self.C is not None` dominates it and '
        '`x.operator` only where and-guarded by `self.<side>_operator_class is <lazy wrapper class>` (the class test '
        'earlier in check() then guarantees the attribute exists), so the TypeError / AttributeError paths of the '
        'Python expressions are not modelled; InverseBinaryRule.check (the only override) is pinned by its AST',
        'leaf operators act in the executable model through dense matrices measured on the real objects; the theorems '
        'quantify over arbitrary leaf semantics satisfying the stated algebraic facts (Lemmas/Sound.v `leaf_facts`)',
        'object identity (`is`) is modelled by harness-assigned object ids; objects created during reduce get id 0',
        'float32 arithmetic of the implementation is compared with exact rationals after rounding measured entries '
        'to rationals with denominator <= 4096 (exact for the integer/dyadic inputs used); tolerance 1e-4 on matrices',
    ]

    def translate(self):
        import tables

        self.stats['tables'] = tables.generate(self.gen_dir)

    def gen_files(self):
        return ['Tables.v']

    # -- cases ---------------------------------------------------------------------------------
    def cases(self):
        quick = self.tier == 'quick'
        rng = self.rng
        out = []
        seen = set()

        inv_cls = A.J()['core'].InverseOperator
        env = G.env(True)

        def add(ops, ctx, kind, pattern=None):
            k = (tuple(ops), ctx)
            if k in seen:
                return
            if ctx == 'T' and any(contains_cls(env[n], inv_cls) for n in ops):
                return  # the library does not support transposing the iterative-solver inverse
            seen.add(k)
            c = {'kind': kind, 'ops': list(ops), 'ctx': ctx}
            if pattern:
                c['pattern'] = pattern
            out.append(c)

        t = G.typed(True)
        self.stats['unbuildable_operands'] = {n: o.error for n, o in env.items() if isinstance(o, A.Unbuildable)}
        by_out, by_in = {}, {}
        for n in [n for n in CONTEXT_OPS if n in t]:
            by_out.setdefault(t[n][1], []).append(n)
            by_in.setdefault(t[n][0], []).append(n)
        # 0. every operand of the alphabet alone: reduce() of the bare object and of a one-operand composition / sum / block
        for n in sorted(t):
            for ctx in ('bare', 'comp', 'sum1', 'blockdiag1'):
                add([n], ctx, 'operand')
        # 1. every documented pattern alone, in every construction context
        all_patterns = {**G.PATTERNS, **G.PATTERNS_EXT}
        patterns = {k: v for k, v in all_patterns.items() if all(n in t for n in v)}
        self.stats['patterns_unbuildable'] = sorted(set(all_patterns) - set(patterns))
        # harness self-check: a hand-written pattern must be a chain-compatible expression
        bad = sorted(k for k, v in patterns.items() if any(t[a][0] != t[b][1] for a, b in zip(v[:-1], v[1:])))
        self.stats['patterns_illtyped'] = bad
        patterns = {k: v for k, v in patterns.items() if k not in bad}
        for pname, pat in patterns.items():
            for ctx in ('comp', 'matmul', 'rmatmul', 'sum', 'blockdiag', 'blockrow-dict', 'T', 'sum1'):
                if len(pat) >= 2 or ctx == 'comp':
                    add(pat, ctx, 'pattern', pname)
            if len(pat) >= 2:
                add(pat, 'nested', 'pattern', pname)
        # 1b. foreign wrappers: every alphabet pair in which a lazy transpose / inverse stands next to an operator that a
        # rule could mistake for the wrapped one (alg_cases.foreign_wrapper_pairs) - alone, with the adjacency arising
        # only during the scan (a cancelling own-wrapper pair in between), and through the @ operator
        foreign = {k: v for k, v in G.foreign_wrapper_pairs().items() if all(n in t for n in v)}
        self.stats['foreign_wrapper_pairs'] = len(foreign)

        def own_pair(p):
            a, b = env[p[0]], env[p[1]]
            return (G._is_wrapper(a) and a.operator is b) or (G._is_wrapper(b) and b.operator is a)

        own = [p for _, p in sorted(patterns.items()) if len(p) == 2 and own_pair(p) and t[p[0]][1] == t[p[1]][0]]

        def signature(pair):
            # the classes a rule can see: of both operands and of what the wrappers wrap, plus the uniqueness flag
            def sig(o):
                inner = sig(o.operator) if G._is_wrapper(o) else None
                return (type(o).__name__, inner, getattr(o, 'unique_indices', None))

            return repr([sig(env[n]) for n in pair])

        groups = {}
        for fname, pair in sorted(foreign.items()):
            groups.setdefault(signature(pair), []).append((fname, pair))
        self.stats['foreign_wrapper_signatures'] = len(groups)
        chosen = []
        for _, members in sorted(groups.items()):
            if quick and len(members) > 6:
                # quick tier: a seeded sample of every class signature (the thorough tier takes every pair)
                members = [members[i] for i in sorted(rng.sample(range(len(members)), 6))]
            chosen += members
        for k, (fname, pair) in enumerate(chosen):
            add(pair, 'comp', 'foreign-wrapper', fname)
            mids = [p for p in own if t[p[0]][1] == t[pair[0]][0]]
            if mids and (k % 2 == 0 or not quick):
                for m in (mids[k % len(mids):] + mids[:k % len(mids)])[:1 if quick else 3]:
                    add(pair[:1] + m + pair[1:], 'comp', 'foreign-wrapper-scan', fname)
            has_inv = any(contains_cls(env[n], inv_cls) for n in pair)
            for ctx in (('matmul', 'rmatmul') if has_inv or not quick else ()):
                add(pair, ctx, 'foreign-wrapper', fname)
            if not quick:
                for ctx in ('sum', 'T'):
                    add(pair, ctx, 'foreign-wrapper', fname)
        # 2. every pattern embedded at every position of contexts of length <= 2 (quick) / 3 (thorough)
        maxctx = 2 if quick else 3
        for pname, pat in patterns.items():
            pin, pout = t[pat[-1]][0], t[pat[0]][1]
            lefts = [[]] + [[n] for n in by_in.get(pout, [])]
            rights = [[]] + [[n] for n in by_out.get(pin, [])]
            if maxctx >= 3:
                cap = 40 if pname in G.PATTERNS else 10
                lefts += [[m, n] for n in by_in.get(pout, []) for m in by_in.get(t[n][1], [])][:cap]
                rights += [[n, m] for n in by_out.get(pin, []) for m in by_out.get(t[n][0], [])][:cap]
            combos = [(l, r) for l in lefts for r in rights if 0 < len(l) + len(r) <= maxctx]
            if quick:
                # every one-sided context; of the two-sided ones an evenly spread subset (none for the long patterns,
                # which already carry their own context).  The thorough tier takes them all.
                both = [c for c in combos if c[0] and c[1]]
                keep = 0 if len(pat) > 2 else (24 if pname in G.PATTERNS else 6)
                step = max(1, -(-len(both) // keep)) if keep else 0
                combos = [c for c in combos if not (c[0] and c[1])] + (both[::step] if keep else [])
            for l, r in combos:
                add(l + pat + r, 'comp', 'embedded', pname)
        # 3. pairs of patterns next to each other / separated by one operator
        npair = 0
        pn = [k for k, v in patterns.items() if len(v) <= 2]  # (the longer ones are already contexts of a pair)
        for a in pn:
            for b in pn:
                pa, pb = patterns[a], patterns[b]
                if t[pa[-1]][0] == t[pb[0]][1]:
                    if quick and not (a in G.PATTERNS and b in G.PATTERNS):
                        npair += 1
                        if npair % 4:
                            continue  # quick tier: every fourth of the pairs involving a pattern of PATTERNS_EXT
                    add(pa + pb, 'comp', 'pattern-pair', f'{a}+{b}')
                    for mid in by_out.get(t[pa[-1]][0], []):
                        if t[mid][0] == t[pb[0]][1] and not quick:
                            add(pa + [mid] + pb, 'comp', 'pattern-pair', f'{a}+{b}')
        # 4. all type-compatible chains over the whole alphabet
        allchains = G.chains(3 if quick else 4, ext=True)
        rng.shuffle(allchains)
        budget = 700 if quick else 12000
        for ch in allchains[:budget]:
            add(ch, 'comp', 'chain')
        for ch in allchains[: budget // 4]:
            add(ch, rng.choice(['matmul', 'rmatmul', 'sum', 'blockdiag', 'T']), 'chain-ctx')
        self.stats['chains_available'] = len(allchains)
        return out

    def extra(self):
        bad = self.stats.get('unbuildable_operands') or {}
        if bad:
            raise RuntimeError(f'operands of the alphabet cannot be constructed on this tree: {bad}')
        if self.stats.get('patterns_illtyped'):
            raise RuntimeError(f'hand-written patterns are not chain-compatible: {self.stats["patterns_illtyped"]}')
        return {}

    def distribution(self, cases):
        d = {}
        for c in cases:
            k = f"{c['kind']}/{c['ctx']}/len{len(c['ops'])}"
            d[k] = d.get(k, 0) + 1
        return d

    def rule(self):
        return (
            'expressions over an alphabet of ~185 real operator objects (dense atoms square/wide/tall, identity, scalars, '
            'diagonal, index (unique/repeated/negative/axis/ellipsis, one-element / 0-d / empty / all-equal / permutation / '
            '2-d index arrays, several leaves of equal and of different shapes), packs with different masks, move-axis, '
            'ravel, reshape (also on pytrees whose leaves have different ranks: a no-op on some leaves only, both leaf '
            'orders, axes (0,-1), (1,-1), (-2,-1)), QU rotations, HWP, polariser, lazy transposes/inverses (same object and '
            'equal-but-distinct), block row/diag/column over list/tuple/dict/nested/single containers): every operand alone '
            'in 4 contexts, every documented pattern in 9 construction contexts, embedded at every position of typed '
            'contexts, pairs of patterns, foreign-wrapper near misses (every alphabet pair in which a lazy transpose / '
            'inverse stands next to an operator of the wrapped class - or of a class a registered rule pairs it with - that '
            'is not the wrapped object; alone and with the adjacency arising only during the scan; quick tier: a seeded '
            'sample of 6 per class signature), and all type-compatible chains (sampled). '
            'Non-trivial: reduce() returned an operator whose skeleton differs from the input expression.'
        )

    # -- implementation ----------------------------------------------------------------------------
    def prepare(self, case):
        env = G.env(True)
        enc = A.Encoder()
        e = build_expr(case, env)
        return e, enc

    def run_impl(self, case):
        try:
            e, enc = self.prepare(case)
        except Exception as ex:
            return {'build_error': type(ex).__name__}
        term = enc.term(e)  # assigns the object ids before reduce() runs
        before = A.skeleton(e, enc)
        obs = A.observe_impl(lambda: e.reduce(), enc)
        red = obs.pop('_op', None)
        obs['before'] = before
        obs['struct_in_before'] = A.struct_repr(e.in_structure())
        obs['struct_out_before'] = A.struct_repr(e.out_structure())
        try:
            obs['mat_reference'] = A.mat_json(A.frac_matrix(A.reference_matrix(e)))
            obs['mat_before'] = A.mat_json(A.frac_matrix(A.dense(e)))
        except Exception as ex:
            obs['mat_before'] = None
            obs['mat_before_error'] = f'{type(ex).__name__}: {str(ex)[:200]}'
        if red is not None and self.want_normal_form:
            obs['normal_form'] = normal_form_report(red)
        case['_term'] = term
        case['_table'] = enc.table_coq()
        case['_unsupported'] = enc.unsupported
        return obs

    def model_term(self, case):
        if case.get('_unsupported') or '_term' not in case:
            return None
        # the hypotheses of reduce_structs / reduce_total (wfo: what the constructors guarantee; prims_okb, params_okb:
        # what cannot be read off a term but holds of every real object; weight <= the 12-level fuel) are evaluated on
        # every encoded real expression: reduce_readyb = wfo && prims_okb && params_okb && (weight <=? alg_fuel)
        t = case['_term']
        # table_okb (Lemmas/ExecFactsL.v): the measured matrices have the declared dimensions, the matrix of every lazy
        # inverse / transpose wrapper IS the two-sided inverse / the transpose of its operand's - the decidable
        # hypothesis under which the leaf facts lf_inv_l/r and the adjoint facts are THEOREMS for the executable semantics
        return (f'(let tb := {case["_table"]} in let e := {t} in '
                f'((reduce_readyb e && table_okb tb e)%bool, observe tb (x_reduce gen_order e)))')

    def decode(self, case, v):
        wf, o = v
        d = A.decode_observation(o)
        d['wf'] = wf
        return d


def contains_cls(op, cls) -> bool:
    """Does the expression contain an operator of the given class anywhere?"""
    j = A.J()
    core, blocks = j['core'], j['blocks']
    if isinstance(op, cls):
        return True
    if isinstance(op, core.CompositionOperator):
        return any(contains_cls(o, cls) for o in op.operands)
    if isinstance(op, core.AdditionOperator):
        return any(contains_cls(o, cls) for o in op.operand_leaves)
    if isinstance(op, blocks.AbstractBlockOperator):
        return any(contains_cls(o, cls) for o in op.block_leaves)
    if hasattr(op, 'operator') and isinstance(getattr(op, 'operator'), core.AbstractLinearOperator):
        return contains_cls(op.operator, cls)
    return False


def _classes(op):
    sk = A.skeleton(op, A.Encoder())

    def go(n):
        return [n[0], [go(k) for k in n[3]]] if n[3] else n[0]

    return go(sk)


def _noids(sk):
    return [sk[0], sk[2], [_noids(k) for k in sk[3]]]


def normal_form_report(red):
    """C07's oracle on the implementation: scan the reduced operator for what should not remain."""
    j = A.J()
    core, rules = j['core'], j['rules']
    rep = {'reducible_pairs': [], 'homotheties': 0, 'identities': 0, 'homothety_side_ok': True, 'idempotent': True}
    # a normal form is a fixed point: reducing again must not find anything left to rewrite
    try:
        again = red.reduce()
        rep['idempotent'] = _noids(A.skeleton(again, A.Encoder())) == _noids(A.skeleton(red, A.Encoder()))
        if not rep['idempotent']:
            rep['again'] = _classes(again)
            rep['first'] = _classes(red)
    except Exception as ex:
        rep['idempotent'] = False
        rep['again'] = f'reduce() of the reduced operator raised {type(ex).__name__}'
    if not isinstance(red, core.CompositionOperator):
        return rep
    ops = red.operands
    for l, r in zip(ops[:-1], ops[1:]):
        for rule in rules.BINARY_RULE_REGISTRY:
            try:
                rule.check(l, r)
                rule.apply(l, r)
            except rules.NoReduction:
                continue
            except Exception as ex:
                rep['reducible_pairs'].append([type(rule).__name__, type(l).__name__, type(r).__name__, f'raised {type(ex).__name__}'])
                break
            rep['reducible_pairs'].append([type(rule).__name__, type(l).__name__, type(r).__name__])
            break
    hs = [i for i, o in enumerate(ops) if isinstance(o, core.HomothetyOperator)]
    rep['homotheties'] = len(hs)
    rep['identities'] = sum(isinstance(o, core.IdentityOperator) for o in ops)
    if len(hs) == 1 and len(ops) >= 2:
        others = [o for o in ops if not isinstance(o, core.HomothetyOperator)]
        left_size = others[0].out_size()
        right_size = others[-1].in_size()
        if left_size < right_size:
            rep['homothety_side_ok'] = hs[0] == 0
        elif right_size < left_size:
            rep['homothety_side_ok'] = hs[0] == len(ops) - 1
        else:
            rep['homothety_side_ok'] = hs[0] in (0, len(ops) - 1)
    return rep
