From Coq Require Import ZArith List Lia Ring.
Import ListNotations.
Set Implicit Arguments.

Inductive pt (A:Type) := Leaf (a:A) | Node (k:nat) (cs:list (pt A)).
Arguments Leaf {A}. Arguments Node {A}.

Section PtInd.
  Variable A:Type. Variable P : pt A -> Prop.
  Hypothesis HL : forall a, P (Leaf a).
  Hypothesis HN : forall k cs, Forall P cs -> P (Node k cs).
  Fixpoint pt_ind' (t:pt A) : P t :=
    match t with
    | Leaf a => HL a
    | Node k cs => HN k ((fix go (l:list (pt A)) : Forall P l :=
         match l with [] => Forall_nil _ | x::xs => Forall_cons _ (pt_ind' x) (go xs) end) cs)
    end.
End PtInd.

Fixpoint flatten {A} (t:pt A) : list A :=
  match t with Leaf a => [a] | Node _ cs => flat_map flatten cs end.
Fixpoint pmap {A B} (f:A->B) (t:pt A) : pt B :=
  match t with Leaf a => Leaf (f a) | Node k cs => Node k (map (pmap f) cs) end.

Lemma flatten_pmap A B (f:A->B) t : flatten (pmap f t) = map f (flatten t).
Proof.
  induction t using pt_ind'; simpl; auto.
  induction H; simpl; auto. rewrite map_app. congruence.
Qed.

Section R.
  Variable K:Type. Variables (k0 k1:K) (kadd kmul ksub:K->K->K) (kopp:K->K).
  Hypothesis Kth : ring_theory k0 k1 kadd kmul ksub kopp (@eq K).
  Add Ring Kring : Kth.
  Notation "a + b" := (kadd a b). Notation "a * b" := (kmul a b). Notation "a - b" := (ksub a b).
  Variable A:Type. Variables (c s:A->K) (aadd:A->A->A).
  Hypothesis c_add : forall a b, c (aadd a b) = c a * c b - s a * s b.
  Hypothesis s_add : forall a b, s (aadd a b) = s a * c b + c a * s b.
  Definition rot (a:A) (qu:K*K) : K*K := let (q,u):=qu in (q * c a - u * s a, q * s a + u * c a).
  Lemma rot_rot a b qu : rot a (rot b qu) = rot (aadd a b) qu.
  Proof. destruct qu as [q u]; unfold rot. rewrite c_add, s_add. f_equal; ring. Qed.
End R.
Check rot_rot.
Print Assumptions rot_rot.
