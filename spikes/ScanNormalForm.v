From Coq Require Import List Arith Lia Bool.
Import ListNotations.
Section Scan.
  Variable op : Type.
  Variable fires : op -> op -> option (list op).   (* first registered rule that fires *)

  (* literal transcription of the while loop (no scalar branch in this spike) *)
  Fixpoint scan (fuel:nat) (ops:list op) (index:nat) : option (list op) :=
    match fuel with
    | O => None
    | S fuel' =>
      if S index <? length ops then
        match nth_error ops index, nth_error ops (S index) with
        | Some l, Some r =>
          match fires l r with
          | Some new => scan fuel' (firstn index ops ++ new ++ skipn (index + 2) ops) (pred index)
          | None => scan fuel' ops (S index)
          end
        | _, _ => None
        end
      else Some ops
    end.

  Definition irreducible_at (ops:list op) (j:nat) : Prop :=
    forall l r, nth_error ops j = Some l -> nth_error ops (S j) = Some r -> fires l r = None.

  Lemma nth_error_splice_lt (ops new rest:list op) index j :
    j < index -> index <= length ops ->
    nth_error (firstn index ops ++ new ++ rest) j = nth_error ops j.
  Proof. intros Hj Hi. rewrite nth_error_app1 by (rewrite firstn_length; lia).
    revert ops index Hj Hi. induction j as [|j IHj]; intros [|a ops] [|index] Hj Hi; cbn in *; try lia; try reflexivity.
    apply IHj; lia. Qed.

  Theorem scan_normal fuel : forall ops index res,
    scan fuel ops index = Some res ->
    (forall j, j < index -> irreducible_at ops j) ->
    forall j, irreducible_at res j.
  Proof.
    induction fuel as [|fuel IH]; intros ops index res Hs Hinv; [discriminate|].
    cbn [scan] in Hs. destruct (S index <? length ops) eqn:Hlt.
    - apply Nat.ltb_lt in Hlt.
      destruct (nth_error ops index) as [l|] eqn:El; [|discriminate].
      destruct (nth_error ops (S index)) as [r|] eqn:Er; [|discriminate].
      destruct (fires l r) as [new|] eqn:Ef.
      + eapply IH; [exact Hs|]. intros j Hj l' r' Hl' Hr'.
        rewrite nth_error_splice_lt in Hl' by lia.
        rewrite nth_error_splice_lt in Hr' by lia.
        apply (Hinv j); [lia|exact Hl'|exact Hr'].
      + eapply IH; [exact Hs|]. intros j Hj.
        destruct (Nat.eq_dec j index) as [->|Hne].
        * intros l' r' Hl' Hr'. congruence.
        * apply Hinv; lia.
    - apply Nat.ltb_ge in Hlt. inversion Hs; subst res. intros j l r Hl Hr.
      destruct (Nat.lt_ge_cases j index) as [Hj|Hj]; [exact (Hinv j Hj l r Hl Hr)|].
      assert (S j < length ops) by (apply nth_error_Some; congruence). lia.
  Qed.
End Scan.
Print Assumptions scan_normal.
