From Coq Require Import ZArith List Lia Ring Bool ZifyBool.
Open Scope Z_scope.
Section T.
  Variable K:Type. Variables (k0 k1:K) (kadd kmul ksub:K->K->K) (kopp:K->K).
  Hypothesis Kth : ring_theory k0 k1 kadd kmul ksub kopp (@eq K).
  Add Ring Kring : Kth.
  Infix "+k" := kadd (at level 50, left associativity).
  Infix "*k" := kmul (at level 40, left associativity).

  Fixpoint sumZ (f:Z->K) (lo:Z) (n:nat) : K :=
    match n with O => k0 | S m => f lo +k sumZ f (lo+1) m end.

  Lemma sumZ_ext f g lo n : (forall i, lo <= i < lo + Z.of_nat n -> f i = g i) -> sumZ f lo n = sumZ g lo n.
  Proof. revert lo; induction n as [|n IH]; intros lo H; cbn [sumZ]; [reflexivity|].
    rewrite H by lia. rewrite (IH (lo+1)); [reflexivity|]. intros; apply H; lia. Qed.
  Lemma sumZ_zero f lo n : (forall i, lo <= i < lo + Z.of_nat n -> f i = k0) -> sumZ f lo n = k0.
  Proof. revert lo; induction n as [|n IH]; intros lo H; cbn [sumZ]; [reflexivity|].
    rewrite H by lia. rewrite IH; [ring|]. intros; apply H; lia. Qed.
  Lemma sumZ_app f lo a b : sumZ f lo (a+b) = sumZ f lo a +k sumZ f (lo + Z.of_nat a) b.
  Proof. revert lo; induction a as [|a IH]; intros lo; cbn [sumZ Nat.add].
    - replace (lo + Z.of_nat 0) with lo by lia. ring.
    - rewrite IH. replace (lo + 1 + Z.of_nat a) with (lo + Z.of_nat (S a)) by lia. ring. Qed.
  Lemma sumZ_shift f lo d n : sumZ f (lo + d) n = sumZ (fun i => f (i + d)) lo n.
  Proof. revert lo; induction n as [|n IH]; intros lo; cbn [sumZ]; [reflexivity|].
    replace (lo + d + 1) with (lo + 1 + d) by lia. rewrite IH. reflexivity. Qed.
  Lemma sumZ_snoc f lo n : sumZ f lo (S n) = sumZ f lo n +k f (lo + Z.of_nat n).
  Proof. replace (S n) with (n + 1)%nat by lia. rewrite sumZ_app. cbn [sumZ]. ring. Qed.
  Lemma sumZ_rev f lo n : sumZ f lo n = sumZ (fun i => f (lo + lo + Z.of_nat n - 1 - i)) lo n.
  Proof. revert lo f; induction n as [|n IH]; intros lo f; [reflexivity|].
    rewrite (sumZ_snoc f). cbn [sumZ]. rewrite (sumZ_shift _ lo 1 n). rewrite (IH lo f).
    rewrite (sumZ_ext (fun i => f (lo + lo + Z.of_nat (S n) - 1 - (i + 1))) (fun i => f (lo + lo + Z.of_nat n - 1 - i))) by (intros; f_equal; lia).
    replace (lo + lo + Z.of_nat (S n) - 1 - lo) with (lo + Z.of_nat n) by lia. ring. Qed.
  (* restriction to a sub-interval outside which g vanishes *)
  Lemma sumZ_restrict g lo n a m :
    lo <= a -> a + Z.of_nat m <= lo + Z.of_nat n ->
    (forall i, lo <= i < lo + Z.of_nat n -> ~(a <= i < a + Z.of_nat m) -> g i = k0) ->
    sumZ g lo n = sumZ g a m.
  Proof. intros H1 H2 Hz.
    replace n with (Z.to_nat (a - lo) + (m + Z.to_nat (lo + Z.of_nat n - a - Z.of_nat m)))%nat by lia.
    rewrite !sumZ_app. rewrite (sumZ_zero g lo) by (intros; apply Hz; lia).
    replace (lo + Z.of_nat (Z.to_nat (a - lo))) with a by lia.
    rewrite (sumZ_zero g (a + Z.of_nat m)) by (intros; apply Hz; lia). ring. Qed.

  Variables (x band : Z -> K) (n h : Z).
  Hypothesis Hn : 1 <= n. Hypothesis Hh : 0 <= h.
  Hypothesis xsupp : forall i, ~(0 <= i < n) -> x i = k0.
  Definition Tm (i j:Z) : K := if Z.abs (i - j) <? h + 1 then band (Z.abs (i - j)) else k0.
  Definition Tx (i:Z) : K := sumZ (fun j => Tm i j *k x j) 0 (Z.to_nat n).
  Definition kernel (s:Z) : K := band (Z.abs (s - h)).
  Definition linconv (p:Z) : K := sumZ (fun s => kernel s *k x (p - s)) 0 (Z.to_nat (2*h+1)).

  Lemma linconv_is_T i : 0 <= i < n -> linconv (i + h) = Tx i.
  Proof. intros Hi. unfold linconv, Tx.
    set (g := fun j => Tm i j *k x j).
    rewrite sumZ_rev.
    transitivity (sumZ g (i - h) (Z.to_nat (2*h+1))).
    { replace (i - h) with (0 + (i - h)) by lia. rewrite sumZ_shift. apply sumZ_ext. intros s Hs.
      unfold g, kernel, Tm. 
      replace (i + h - (0 + 0 + Z.of_nat (Z.to_nat (2*h+1)) - 1 - s)) with (s + (i - h)) by lia.
      replace (0 + 0 + Z.of_nat (Z.to_nat (2 * h + 1)) - 1 - s - h) with (i - (s + (i - h))) by lia.
      destruct (Z.abs (i - (s + (i - h))) <? h + 1) eqn:E; [reflexivity|lia]. }
    set (lo := Z.min 0 (i - h)). set (hi := Z.max n (i + h + 1)).
    transitivity (sumZ g lo (Z.to_nat (hi - lo))).
    - symmetry. apply sumZ_restrict; try lia. intros j Hj Hnot. unfold g, Tm.
      destruct (Z.abs (i - j) <? h + 1) eqn:E; [lia|ring].
    - apply sumZ_restrict; try lia. intros j Hj Hnot. unfold g. rewrite xsupp by lia. ring. Qed.
End T.
Print Assumptions linconv_is_T.
