#!/usr/bin/env python3
"""usage: baseline_check.py [<worktree>=/repo]   Runs the test suite of the furax worktree (with its own src on
PYTHONPATH) and reports which of the pinned stable-pass tests no longer pass. Exit 0 = none."""
import json, subprocess, sys, tempfile, xml.etree.ElementTree as ET, os
wt = os.path.abspath(sys.argv[1] if len(sys.argv) > 1 else '/repo')
base = json.load(open('/root/.vp/BASELINE.json'))
out = tempfile.mktemp(suffix='.xml', dir='/tmp')
cmd = base['cmd'].replace('<file>', out).replace('cd /repo', f'cd {wt}')
env = dict(os.environ, PYTHONPATH=f'{wt}/src', PYTHONDONTWRITEBYTECODE='1')
subprocess.run(cmd, shell=True, stdout=subprocess.DEVNULL, stderr=subprocess.DEVNULL, env=env)
passed = set()
for tc in ET.parse(out).getroot().iter('testcase'):
    if not any(ch.tag in ('failure', 'error', 'skipped') for ch in tc):
        passed.add(f"{tc.get('classname')}::{tc.get('name')}")
os.unlink(out)
missing = [t for t in base['stable_pass'] if t not in passed]
print(f'stable_pass {len(base["stable_pass"])}, passed now {len(passed)}, regressions {len(missing)}')
for t in missing[:30]:
    print('  REGRESSION', t)
sys.exit(1 if missing else 0)
