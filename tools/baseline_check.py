#!/usr/bin/env python3
"""Runs the repository's test suite and compares with /root/.vp/BASELINE.json stable_pass."""
import json, subprocess, sys, tempfile, xml.etree.ElementTree as ET, os
base = json.load(open('/root/.vp/BASELINE.json'))
out = tempfile.mktemp(suffix='.xml', dir='/tmp')
cmd = base['cmd'].replace('<file>', out)
subprocess.run(cmd, shell=True, stdout=subprocess.DEVNULL, stderr=subprocess.DEVNULL)
passed = set()
for tc in ET.parse(out).getroot().iter('testcase'):
    if not any(ch.tag in ('failure', 'error', 'skipped') for ch in tc):
        passed.add(f"{tc.get('classname')}::{tc.get('name')}")
os.unlink(out)
missing = [t for t in base['stable_pass'] if t not in passed]
print(f'stable_pass {len(base["stable_pass"])}, passed now {len(passed)}, regressions {len(missing)}')
for t in missing[:20]:
    print('  REGRESSION', t)
sys.exit(1 if missing else 0)
