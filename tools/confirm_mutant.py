#!/usr/bin/env python3
"""usage: confirm_mutant.py <prop> <k> <worktree> <caught-by> <status>
Confirms a seeded mutation produced by an independent agent (/tmp/mut-out/<prop>/m<k>): the patch applies to
/repo's HEAD, the demonstration fails with it and passes without it, the pinned test suite still passes
with it; then stores it as /verif/seeded/<prop>-m<k>/ (patch.diff, demo.py, notes.md, meta.json)."""
import json, os, shutil, subprocess, sys
prop, k, wt, caught_by, status = sys.argv[1:6]
outroot = sys.argv[6] if len(sys.argv) > 6 else '/tmp/mut-out'
tag = sys.argv[7] if len(sys.argv) > 7 else 'm'
src = f'{outroot}/{prop}/m{k}'
def sh(cmd, **kw):
    return subprocess.run(cmd, shell=True, capture_output=True, text=True, **kw)
head = sh('git -C /repo rev-parse HEAD').stdout.strip()
sh(f'git -C {wt} checkout -q --detach {head}; git -C {wt} checkout -q -- .')
env = f'cd {wt} && PYTHONPATH={wt}/src JAX_PLATFORMS=cpu timeout 900 /venv/bin/python {src}/demo.py'
clean = sh(env).returncode
ap = sh(f'git -C {wt} apply {src}/patch.diff')
if ap.returncode:
    print('PATCH DOES NOT APPLY', ap.stderr); sys.exit(2)
mutated = sh(env).returncode
base = sh(f'python3 /verif/tools/baseline_check.py {wt}')
sh(f'git -C {wt} checkout -q -- .')
ok = clean == 0 and mutated != 0 and base.returncode == 0
print(prop, k, 'demo clean exit', clean, 'mutated exit', mutated, 'baseline:', base.stdout.strip().splitlines()[0] if base.stdout else base.stderr[-200:], 'CONFIRMED' if ok else 'NOT CONFIRMED')
if not ok:
    sys.exit(1)
dst = f'/verif/seeded/{prop}-{tag}{k}'
os.makedirs(dst, exist_ok=True)
for f in ('patch.diff', 'demo.py', 'notes.md'):
    if os.path.exists(f'{src}/{f}'):
        shutil.copy(f'{src}/{f}', dst)
notes = open(f'{src}/notes.md').read() if os.path.exists(f'{src}/notes.md') else ''
meta = {
    'property': prop, 'mutation': f'{tag}{k}', 'repo_head_when_confirmed': head,
    'breaks': notes[:1500],
    'confirmed': {'demo_exit_unmodified': clean, 'demo_exit_mutated': mutated, 'pinned_tests': base.stdout.strip().splitlines()[0]},
    'ran': [f'git apply patch.diff in a scratch worktree of /repo HEAD', 'demo.py before/after', 'python3 baseline_check.py <worktree> (1039 pinned tests)', f'FURAX_REPO=<worktree> ./check {caught_by} --tier quick'],
    'detected_by': caught_by, 'detection': status,
}
json.dump(meta, open(f'{dst}/meta.json', 'w'), indent=1)
