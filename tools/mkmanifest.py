#!/usr/bin/env python3
"""Writes /verif/MANIFEST.json from the table below (kept in one place so it always validates)."""
import json
from pathlib import Path

VERIF = Path('/verif')

# id -> (technique, level text, level note, design ref)
CLAIMED = {
    'C19': (
        'Coq proof (induction over histories, frame/isolation lemma over all schedules) of a hand-written '
        'Gallina state machine + differential correspondence with the real Config/InverseOperator/threads',
        'All well-nested histories of any depth and all thread schedules are covered by theorems about the model '
        '(restore, innermost_wins, ends_with_defaults, capture, thread_isolation); the model is tied to the code by '
        'running the same histories (exhaustive up to 5-6 events, plus seeded random, plus all interleavings of short '
        'thread histories on real threads) on the real code and on the model evaluated by vm_compute.',
        'Trusts CPython contextvars semantics as modelled, the abstraction of setting values to identifiers, the '
        'correspondence harness; Coq kernel; no axioms (theorems closed under the global context).',
        'DESIGN.md section 4, C19',
    ),
}

PENDING_REASON = 'check not built yet in this session (work in progress; see DESIGN.md section 8 for the order of work)'


def main():
    props = [json.loads(l) for l in (VERIF / 'properties.jsonl').read_text().splitlines() if l.strip()]
    checks = []
    na = []
    for p in props:
        pid = p['id']
        if pid in CLAIMED:
            tech, text, note, ref = CLAIMED[pid]
            checks.append(
                {
                    'property_id': pid,
                    'quick_cmd': f'./check {pid} --tier quick',
                    'thorough_cmd': f'./check {pid} --tier thorough',
                    'evidence_file': f'/verif/evidence/{pid}.json',
                    'replay_cmd_template': f'./check {pid} --replay {{path}}',
                    'engine': 'coq-model+correspondence',
                    'level_claimed': {'category': 'proof', 'text': text, 'design_ref': ref},
                    'level_note': note,
                    'technique': tech,
                }
            )
        else:
            na.append({'property_id': pid, 'reason': PENDING_REASON})
    manifest = {
        'version': 1,
        'setup_cmd': 'cd /verif/coq && coq_makefile -f _CoqProject -o Makefile && timeout 3000 make -j6',
        'hooks': {
            'guard': 'FURAX_VERIF',
            'enable': 'no source hooks are needed: every observation point is public API (checks export FURAX_VERIF=1 anyway)',
            'baseline_off_cmd': 'cd /repo && /venv/bin/python -m pytest -ra -q -p no:cacheprovider --timeout=900 --continue-on-collection-errors',
            'source_commits': [],
            'add_only': True,
        },
        'engines': [
            {
                'name': 'coq-model+correspondence',
                'path': '/verif/check',
                'serves_properties': sorted(CLAIMED),
                'kind_free_text': 'Rocq/Coq 8.16 theorems about a Gallina model (coq/theories), translators regenerating '
                'Gen/*.v from /repo (tools/translate), differential correspondence harness running the real furax '
                'and the vm_compute-evaluated model on the same inputs (harness/)',
            }
        ],
        'checks': checks,
        'notes': 'See DESIGN.md. KNOWN_FINDINGS.txt lists recorded findings and fixed: entries.',
        'not_applicable': na,
    }
    (VERIF / 'MANIFEST.json').write_text(json.dumps(manifest, indent=1) + '\n')
    print(f'{len(checks)} checks, {len(na)} pending')


if __name__ == '__main__':
    main()
