#!/usr/bin/env python3
"""Writes /verif/MANIFEST.json from the table below (kept in one place so it always validates)."""
import json
from pathlib import Path

VERIF = Path('/verif')

# id -> (technique, level text, level note, design ref)
CLAIMED = {
    'C19': (
        'Coq proof (induction over histories, frame/isolation lemma over all schedules) of a hand-written '
        'Gallina state machine + differential correspondence with the real Config/InverseOperator/threads',
        'All well-nested histories of any depth and all thread schedules are covered by theorems about the model '
        '(restore, innermost_wins, ends_with_defaults, capture, capture_effect / effects_determine_every_setting, capture_everywhere (any object derived from an inverse by reduce / composition / blocks / round trip / .I.I, applied through any route incl. jit arguments), thread_isolation). '
        'The event language separates BUILDING a Config object (its values are replace(configuration active at build, kwargs)) from ENTERING it '
        '(preset_holds_build_time_configuration, preset_block_scopes_and_restores_enter_time, reentered_preset_block, capture_inside_preset_block, '
        'handed_thread_has_defaults: objects entered at several depths, re-entered while open, handed to other threads); fail-closed AST tie on '
        'Config.__init__/__enter__/__exit__/instance; applying inverses must leave every stored and active configuration unchanged (independent record). The model is tied to the code by '
        'running the same histories (exhaustive up to 5-6 events, plus seeded random, plus all interleavings of short '
        'thread histories on real threads) on the real code and on the model evaluated by vm_compute; every captured '
        'setting is observed through its EFFECT on op.I(y) (failing and converging solves identified against NumPy CG references).',
        'Trusts CPython contextvars semantics as modelled, the abstraction of setting values to identifiers, the '
        'correspondence harness; Coq kernel; no axioms (theorems closed under the global context).',
        'DESIGN.md section 4, C19',
    ),
    'C01': (
        'Coq proof by induction on fuel / expression / scan steps that reduce() preserves the denotation, for any rule '
        'order and any leaf semantics satisfying the stated algebraic facts; T-tie (rule registry, class hierarchy, '
        'method resolution, and the BODY of AbstractBinaryRule.check translated statement by statement into Gallina and proved equal to the '
        'model\'s guard_ok: generic_check_as_modelled; regenerated from the package and compared in Coq on every run); differential correspondence of reduce() '
        'on real operator expressions (skeleton, structures, dense matrix)',
        'reduce_sound: for every expression tree, registry order and fuel, if reduce returns e then every input the '
        'original accepts gives the same output through e; reduce_structs: e is again well-formed and has the same input '
        'and output structures (every rule family, the scalar/identity rules, the scan and the nested block reductions); '
        'reduce_total: reduce returns an operator - never an exception - within the fuel the harness uses, by the measure '
        '4|ops|^3 + 2 inv(ops) + (|ops| - index) per scan and a nesting weight - model level, all inputs. The model is tied to the code by '
        'regenerated tables (compiled and compared on every run) and by running reduce() of ~4400 (quick) / ~41000 '
        '(thorough) real expressions against the vm_compute-evaluated model, with the dense matrix of reduce(e) also '
        'compared with that of e on the implementation.',
        'All three clauses are proved at model level: reduce_total / reduce_no_exception (termination within an explicit fuel, '
        'no exception: Props/C01Total.v), reduce_structs (Props/C01Structs.v), reduce_sound (Props/C01.v). Hypotheses: the '
        'decidable predicates wfo, prims_okb, params_okb and weight <= fuel (reduce_readyb), evaluated on every encoded real '
        'expression by the harness; leaf_facts for opaque operators (linearity, lazy inverse inverts; the polarimetry facts '
        'are discharged by C15 for the executable semantics). Trusts the table translator, the harness, matrices of leaf '
        'operators measured on the real code, harness-assigned object identities, Coq kernel.',
        'DESIGN.md section 4, C01',
    ),
    'C07': (
        'Coq proof of the scan loop invariant (pairs left of index irreducible), of the scalar-count and identity-freedom '
        'invariants, for any registry order; T-tie on the registry; structural correspondence of reduce() results',
        'reduced_chain_is_normal / pattern_never_survives: in the result of the n-ary reduction no adjacent pair is '
        'reducible by any registered rule, at most one scalar remains, no identity remains - for all chains, contexts and '
        'lengths (model level). Tie: skeleton (classes, object identities, merged parameters, scalar position) of '
        'reduce() on every documented pattern in 9 construction contexts, embedded at every position of typed contexts, '
        'pairs of patterns and sampled chains, compared with the model; oracle re-applies the real rules to the result.',
        'The placement clause is proved too (Props/C07Side.v): reduced_chain_scalar_placed / reduce_composition_scalar_placed / '
        'scalar_on_smaller_side - after reduction of a chain-compatible composition the single remaining scalar is the first '
        'factor when out_size <= in_size of the non-scalar ends and the last factor otherwise (tie -> left, as the code). '
        'Trusts the table translator, harness-assigned object identities, the harness, Coq kernel.',
        'DESIGN.md section 4, C07',
    ),
    'C09': (
        'Coq proof, for all n, K (K > n included), FFT sizes >= 2K-1 and batch shapes, that the four evaluation kernels '
        '(dense, direct, fft, overlap_save) equal the banded product, over an arbitrary commutative ring; the integer '
        'arithmetic of toeplitz.py (padding, block count, offsets, slice bounds, default FFT size, constructor '
        'validation, dtype of the output buffer) is REGENERATED from the source by a fail-closed ast translator on every '
        'run and the theorems are re-proved against it; differential correspondence with the real operator',
        'dense_spec, T_symmetric, dense/direct/fft/overlap_save_eq, mv_correct (end to end from an accepted constructor '
        'call, batched rows), as_matrix block-diagonal, ctor_rejects / ctor_accepts_admissible, dtype_preserved, '
        'default_fft_ok: all sizes, no bound. Tie: T-tie FuraxGen.ToeplitzArith + C-tie on all n<=12, K<=6, admissible and '
        'inadmissible fft sizes, 4 methods, batch shapes, dtypes x x64 modes, plus spec_* cases validating the Gallina '
        'specifications of the JAX primitives.',
        'Trusts the DFT convolution theorem for jnp.fft (circular convolution spec), the Gallina specs of pad/convolve/'
        'dynamic_slice/dynamic_update_slice/vectorize/block_diag (validated against JAX by spec cases), exact ring '
        'arithmetic standing for floating point, the translator tools/translate/toeplitz.py, the harness, Coq kernel.',
        'DESIGN.md section 4, C09',
    ),
    'C13': (
        'Coq proof over all ranks, axis tuples (any signs/lengths) and shapes that MoveAxis is the numpy.moveaxis '
        'permutation with transpose = inverse, that Ravel/Reshape keep row-major data (so transpose = inverse), exact '
        'iff-characterisations of constructor acceptance (ravel guards, -1 inference), reduce-to-identity iff no-op, '
        'soundness of the two inverse rules; differential correspondence with the real operators',
        'moveaxis_spec/inverse/inverse_pytree/T_inverse/rule_sound, ravel_ctor_iff/assert_unreachable/spec, '
        'reshape_ctor_iff/completed_shape/data_identity/reshapeT_restores_shape, reduce_identity_iff_noop, '
        'reshape_rule_sound: all inputs (model level). Tie: C-tie on ~13000 (quick) constructor calls, applications and two-operand '
        'compositions (same object / equal-but-distinct / different operators sharing a side) whose reduce() is compared with the unreduced operator and NumPy: '
        'all leaf shapes of rank <= 4 over dims {1,2,3}, all source/destination tuples, all (first,last) in [-5,5]^2, all '
        'factorisations with -1, malformed stream, pytrees of different ranks; oracle numpy.moveaxis/reshape.',
        'Trusts the Gallina specs of jnp.moveaxis / reshape / jax.tree.map (validated on the enumerated scope), '
        'harness-assigned object identities for `is`, the harness, Coq kernel.',
        'DESIGN.md section 4, C13',
    ),
    'C14': (
        'Coq proof that for every subscript string accepted by the (transcribed) rewriting function the rewritten einsum is '
        'the exact adjoint (re-indexing of the triple sum along the swap of the contracted and free block letters), '
        'involutivity, exact accept/reject characterisation, every rejection a ValueError; the pinned (pre-fix) '
        'first-occurrence swap is kept as a refuted variant; differential correspondence on all short strings',
        'rewrite_adjoint / rewrite_adjoint_mv / rewrite_adjoint_Z (all strings, shapes, blocks, inputs), accepts_iff, '
        'rejects_without_rewriting, outcome_total, rewrite_involutive, mv_applies_einsum_to_each_leaf_shared/perleaf, mv_pytree_without_leaves. Tie: C-tie on every string l,r->o over {i,j,k,...} up '
        'to the enumerated lengths plus malformed strings (outcome compared), and mv / T.mv / dense matrices on integer '
        'blocks; oracle mat(op.T) = mat(op)^T with NumPy einsum.',
        'Trusts the textbook einsum specification for jnp.einsum (size-1 ellipsis broadcasting not modelled), Python '
        'string/set operations as transcribed, the harness, Coq kernel.',
        'DESIGN.md section 4, C14',
    ),
    'C17': (
        'Coq proof for any number of dimensions that pixel2index is the mixed-radix bijection (first coordinate fastest) '
        'with round-half-even, -1 exactly for coordinates outside the map, no wrap-around for the chosen integer width '
        '(machine-integer wrap written into the model), dtype wide enough, coverage = histogram; differential '
        'correspondence incl. maps around 2^31 pixels in both x64 modes; healpy agreement tested numerically only',
        'p2i_spec/formula/row_major/bijection_*/outside/minus_one_iff/rounding/no_wrap/invalid_masked, dtype_wide_enough, '
        'dtype_dims_strides_fit, coverage_histogram, constructor theorems: all shapes, all coordinates. Tie: C-tie on '
        'quarter-integer grids over all small shapes and on adversarial huge shapes (2^31 boundary), coverage over Sampling '
        'fields of different broadcastable shapes (model of NumPy broadcasting: coverage_of_broadcast_sampling). Partial: '
        'jax_healpy.ang2pix vs healpy is a numerical cross-check (both x64 modes, float32/float64 landscapes, nside up to '
        '8192 / 2^20, index corners, longitudes one ulp below 0; a mismatch is reported as VIOLATION), not a theorem. Resolutions that are not '
        'powers of two are included: there world2index disagrees with healpy in the equatorial belt (jax_healpy masks the in-ring index instead '
        'of reducing it modulo 4 nside) - recorded as the known finding healpix-nside-not-power-of-two-equatorial-belt (KNOWN-FINDING line, exit 0; '
        'any mismatch without exactly that signature is still a VIOLATION); Props/C17Ring.v (ring_mask_is_mod_for_pow2, ring_mask_refuted_nside3, '
        'ring_mask_loses_positions_nside3) states the arithmetic boundary of that finding - a model of the dependency, not of furax.',
        'Trusts Gallina specs of jnp.round, astype saturation, int32/int64 wrap, unique/scatter-add (compared with JAX), '
        'coordinates as exact rationals, jax_healpy.ang2pix not modelled (healpy clause partial), the harness, Coq kernel.',
        'DESIGN.md section 4, C17',
    ),
    'C02': (
        'Coq proof that the transcribed dunders (@ + - unary- k* /k, with the overrides of Composition, Addition, Identity, '
        'Homothety and lazy-inverse operators and every construction shortcut) denote the product / sum / difference / '
        'negation / scalar multiples of their operands for operands of any class and any grouping, that results are '
        'well-formed with the implied structures, and that mismatching operands are rejected with ValueError; '
        'differential correspondence of the real dunders on every compatible operand pair of a ~117-operand alphabet',
        'matmul_sound, matmul_structs, matmul_mismatch_rejected, matmul_assoc, add_sound (flattening incl.), add_structs, '
        'add/sub_mismatch_rejected, smul/sdiv/neg/sub_sound, smul_structs: all operands, all inputs (model level), closed '
        'under the global context. Tie: C-tie comparing outcome kind, result skeleton (classes, operand identities, merged '
        'scalars), structures and dense matrix of ~6300 (quick) real expressions with the model; wfo (constructor '
        'guarantees) evaluated on every encoded real operand; oracle NumPy arithmetic on operand matrices.',
        'Trusts leaf_facts for opaque leaves (homogeneity, lazy inverse inverts), CPython operator protocol as folded into '
        'the model, harness-assigned identities, float32 vs exact rationals on dyadic inputs; NumPy non-scalar array '
        'factors are outside the modelled domain (boundary note in DESIGN).',
        'DESIGN.md section 4, C02',
    ),
    'C08': (
        'Coq proof over an executable model of every tagged operator class that each `true` of the REGENERATED class x tag '
        'table (7 lineax predicates + transpose-returns-self, inverse-is-transpose, out_structure-is-in_structure; '
        'decorator effects read by ast) implies the semantic matrix property for all legal parameters - a finite decision '
        'over classes x tags in which every true entry points to a proved lemma (fails closed on unknown class/tag); '
        'T-tie translator tools/translate/tags.py; differential harness on real operators',
        'tags_truthful, self_transpose_ok, inv_is_T_ok, square_ok, never_overtagged, decorators_justified over any '
        'commutative ring; T-tie theorems every_declared_tag_has_a_proof, decorator_effects_are_implied, '
        'symmetric_returns_self compiled against the regenerated table on every run. C-tie: dense matrices, op.T is op, op.I '
        'vs op.T, structures, lineax predicates of every tagged class over its parameter scope vs the model; oracle-only precision grid '
        '(x64 on/off x parameter dtype x data dtype, parameters up to 1e6, every tag and dense(op.T) = M^T, dense(op.I) M = I against the float64 closed form).',
        'Guards: constructor checks; Toeplitz/QURotation parameters not wider than the input (wider ones are a reported '
        'boundary, as in C05); parameter layout abstracted (C11/C09/C15); translator bytecode/ast recognition; exact ring '
        'for floats; harness.',
        'DESIGN.md section 4, C08',
    ),
    'C11': (
        'Coq proof over an executable model of diagonal.py (reusing the C13 moveaxis / n-d index model): element formula of '
        'the broadcast product for all ranks, shapes and axis specifications, exact accept/reject characterisation of both '
        'constructors, strict <=> shape-preserving, as_matrix = generic columns, pseudo-inverse laws; differential '
        'correspondence on ~13000 constructor calls / applications with an independent NumPy element-formula oracle',
        'diag_elementwise(_leaf), scalar_axis_forms, broadcast_dims_minimal, ctor_accepts_legal (iff), ctor_rejects, '
        'strict_preserves_shape (iff), mixed_rank_leaves, diag_as_matrix, pinv_is_pseudo_inverse, ctor_decided_leaf_by_leaf, '
        'ctor_leaf_order_irrelevant, mv_decided_leaf_by_leaf, mv_one_bad_leaf_raises (no state carried across leaves): all closed under the '
        'global context, no clause partial. Tie: C-tie enumerating rank<=2 leaves completely (+ sampled rank 3, thorough: '
        'complete), all scalar axes in [-4,3], all distinct axis tuples, both classes, pytrees of mixed rank, malformed '
        'stream; prime-valued inputs; same-rank multi-leaf pytrees with the offending leaf first / middle / last, each leaf also run alone.',
        'Trusts Gallina specs of moveaxis/reshape/broadcasting/diag/where (validated on the enumerated scope), exact Z/Q for '
        'float32 on exactly representable inputs; wrong-length axis tuples, None and Python-scalar values are outside the '
        'theorems (first still covered by correspondence).',
        'DESIGN.md section 4, C11',
    ),
    'C12': (
        'Coq proof over an executable model of IndexOperator / PackOperator and both index rules (reusing '
        'Algebra.indexed_axes / coverage_of / norm_index, i.e. the very definitions the C01 model of TransposeIndexRule '
        'uses): gather/scatter adjointness, P P^T = I iff no duplicate, P^T P = multiplicities for arbitrary selections; '
        'slice/mask/single-array semantics computed with injectivity proved for every start/stop/step; the '
        'unique/counts/scatter multiplicity pipeline proved correct; differential correspondence with NumPy oracle',
        'index_T_is_scatter_add, PPt_identity_iff, PtP_multiplicity, slice_selects_distinct_in_range, '
        'unique_inference_sound, multiplicity_code_correct (+ raw-value refuted witness = pre-fix defect), PtP_rule_sound, '
        'indexed_axes_spec, reduce_identity_only_if_noop, pack_is_index_by_mask, pack_unpack_rule_sound, ctor theorems: all obligations (count in the evidence file) '
        'closed under the global context. Tie: C-tie on ~3200 (quick) index expressions x shapes incl. reductions.',
        'Tuples with two or more array entries (several integer arrays, mask + array, several masks: NumPy advanced indexing with '
        'broadcasting and the adjacency rule) are MODELLED (index_adv) and covered by unique_inference_sound (now for every tuple), '
        'index_T_is_scatter_add_any_tuple, PPt_identity_iff_any_tuple, PPt_rule_sound_when_inferred, gather_positions_in_range, '
        'broadcast_masks_select_distinct (48 obligations). Left outside the model: np.newaxis entries and out-of-bounds integers. Trusts NumPy/JAX indexing spec, linear_transpose of a gather = scatter-add, jnp.unique/.at[].add '
        'specs, harness. Model follows fixes 0c57282 and 091cfac.',
        'DESIGN.md section 4, C12',
    ),
    'C15': (
        'Coq proof over an abstract commutative ring and abstract angle structure (addition formulas as Section hypotheses, '
        'discharged by an exact rational unit-vector instance and by Coq.Reals cos/sin): each mv equals its Mueller matrix '
        'for every Stokes kind, position and broadcastable angle array; the four rotation products with exactly the angle '
        'expressions QURotationRule computes; R.HWP = HWP.R^T, P.HWP = P; factories = explicit products; reduce of any chain '
        'over {R, R^T, HWP, P} preserves the map; stage 2 discharges the polarimetry leaf_facts assumed by C01 for the '
        'executable leaf semantics; differential correspondence + NumPy Mueller oracle',
        'all obligations closed under the global context (the Coq.Reals instance file depends on the standard real '
        'axioms sig_forall_dec, sig_not_dec, functional_extensionality_dep). Tie: all chains of length <= 4 x 4 Stokes kinds '
        'x broadcast angle arrays (k.pi/4 exact; Pythagorean generic angles at 1e-12 under x64), factories, same-object '
        'patterns; stored-angle ladder (angles k/2^j held exactly by the operand dtype, magnitudes 1e2..1e6 quick / 1e0..1e8 thorough, x64 on/off, '
        'float64 Mueller reference at the STORED angle without a magnitude term in the tolerance; model fed libm cos/sin rounded to rationals); '
        'mixed chains: every polarimetry operand and its lazy transpose / inverse next to pack / index / diagonal / reshape / ravel / move-axis '
        'neighbours on both sides, before and after reduce().',
        'Floating-point trig modelled exactly; jnp broadcasting specified in Gallina with its laws proved; scan termination '
        'left to C07; harness-assigned identities.',
        'DESIGN.md section 4, C15',
    ),
    'C16': (
        'Coq proof over a ring-generic model of the projection / acquisition chain: the nine Euler-matrix entries and the '
        'einsum subscripts are RE-TRANSLATED from projections.py on every run (T-tie) and proved equal to Rz.Ry.Rz (by '
        'ring, all angles), orthogonal; projection and acquisition formulas, equality before/after reduction, P^T P = '
        'hit-count diagonal (built and reduced, incl. the unique/scatter pipeline) for every Stokes kind, pixel table and '
        'angle; C-tie on the real create_projection_operator / create_acquisition; pixel lookup tested numerically only',
        'euler_is_ZYZ, euler_orthogonal, einsum_is_matvec, projection_formula, acquisition_formula, '
        'acquisition_reduce_equal, PtP_hits, PtP_reduce_equal, multiplicity_is_hit_count: all obligations (count in the evidence file) closed under the '
        'global context. Tie: T-tie Gen/EulerMatrix.v; C-tie feeding the model the implementation\'s own pixel table '
        '(nside 1-4, 4 Stokes kinds, 1-3 detectors, several directions per detector; 13 layout classes in which the detector / direction / sample axes '
        'COINCIDE in size or have size 1, with asymmetric pointing so that swapping axis roles changes the result).',
        'Partial: that pix[d,t] is the HEALPix pixel containing the rotated direction (vec2dir float trig + '
        'jax_healpy.ang2pix) is cross-checked against NumPy Rz.Ry.Rz + healpy on 28k (quick) / 222k directions, not proved. '
        'Reduced skeletons checked per case through the C01/C07 reduce model. Model follows fix b0caed7.',
        'DESIGN.md section 4, C16',
    ),
    'C18': (
        'Coq model (a small Python-subset interpreter: call binding, constructor bodies) of the hand-registered pytree '
        'nodes, REGENERATED from landscapes.py by a fail-closed ast/inspect translator on every run, with the round trip '
        'unflatten(flatten obj) = obj proved for every registered class and all constructor arguments; the static/dynamic '
        'field partition of every operator class regenerated and proved consistent with trace-safe use; JIT / XLA / '
        'equinox behaviour tested on every operator class through four execution routes',
        'roundtrip_ok, registered_keys_accepted, unaccepted_key_always_fails (D4 stated generally), '
        'unflatten_call_always_binds, partition_sound, no_shape_level_field_traced, mask_fields_excluded, table_unchanged, '
        'static_fields_all_compared (every static dataclass field and every ConfigState field takes part in the equality the jit cache uses): '
        'all obligations (count in the evidence file) closed under the global context. Tie: T-tie Gen/PytreeReg.v + Gen/FieldTable.v; C-tie on the '
        'registered nodes; ~350 instance runs (0-d / 1-element / integer variants of every array field) comparing eager / jit closure / '
        'filter_jit / round trip in several ORDERS on one object and under different ambient configurations at trace and call time; '
        'one-field pairs through one jitted function; static scans for hidden per-object state, Python-level conversions of traced '
        'fields and ambient reads; fifteen action-preserving DERIVATIONS (reduce, .T.T, wrap-and-reduce, tree map, copies...) of operators holding a lazy '
        'inverse performed under an ambient Config different from the creation one, then applied eagerly / closure-jit / argument-jit and compared with the '
        'original object and numpy.linalg.solve; static scan ambient_rebuild_scan (no method of a class whose constructor reads ambient state may rebuild it).',
        'Partial: that tracing, jit/XLA and equinox generic flattening preserve values is tested (27 concrete operator '
        'classes, composites, landscapes, both x64 modes), not proved. Trusts the translator, the interpreter\'s Python '
        'semantics on its value domain, the hand-written use classification of fields. Model follows fix 00febbf.',
        'DESIGN.md section 4, C18',
    ),
    'C20': (
        'Coq proof over an executable model of the Stokes containers and tree helpers, polymorphic in leaf type and leaf '
        'operation (so operand order is observable): component-wise dispatch of direct and reflected dunders, '
        'independence, error propagation, kind rejection, factories, from_stokes/from_iquv, the dtype promotion table as a '
        'least upper bound, structure preservation of the *_like / as_structure / as_promoted_dtype helpers, dot as the '
        'Hermitian sum over a ring with involution; differential correspondence in both x64 modes with exact oracle',
        'all obligations (count in the evidence file) closed under the global context (incl. index_componentwise over a total model of NumPy basic/advanced indexing). Tie: C-tie on ~7700 (quick) cases: kinds x shapes x dtypes x ~500 index forms x '
        'operand forms x all dunders in both orders with distinct prime components; jnp.result_type compared on all 12x12 '
        'pairs and 12^3 triples in both x64 modes (finite: exhaustive).',
        'JAX leaf primitives are Gallina specifications checked against JAX by the harness; exact rationals for floats; '
        'Python operator protocol and NumPy scalar unwrapping trusted. Model follows fix b6f6a0c.',
        'DESIGN.md section 4, C20',
    ),
    'C10': (
        'Coq proof over the shared operator model, for every container nesting / arity (single block included), every '
        'block (pytree inputs/outputs) and every input over any commutative ring: matrix-free specs of block row / diagonal / '
        'column, their dense forms (hstack / block_diag / vstack in pytree-leaf order, read off basis columns), structural '
        'transposes with adjointness closure, block-wise inverse, exact constructor characterisation, the four block '
        'product rules (fire iff equal tree structure; sound; row x column = sum); differential correspondence of '
        'constructor / mv / .T / .I / as_matrix / reduce / products of the real blocks.py with NumPy/SciPy oracle',
        'blockdiag/blockcol/blockrow_spec, blockrow_single, block*_matrix, block*_dense, matrix_is_basis_columns, '
        'block_transposes(+adjoint), blockdiag_inverse(_sound), ctor_ok_iff, ctor_rejects_mismatch, '
        'block_rules_fire_iff_same_treedef, block_rules_sound, row_col_is_sum, ctor_rejects_other_container, lazy_transpose_inverse, blockdiag_steps (any .T/.I sequence is taken block by block): all obligations (count in the evidence file) closed under the global '
        'context, nothing partial. Tie: C-tie on 9 container shapes x ~25 block kinds and all compatible pairs of ~50 block '
        'operators (~2000 quick / ~10600 thorough cases); oracle-only dtype-changing blocks (every ordered pair of data / matrix dtype incl. x64) for the '
        'three block kinds x nine containers; mismatch cases record construction separately from later use (refusal must happen AT construction).',
        'Matrix forms assume each block acts as a matrix (shown for the measured-matrix leaves of Exec by '
        'exec_table_leaf_acts_as); adjointness of leaf pairs is C03; iterative InverseOperator blocks compared structurally '
        '(action: C06); jax.tree / hstack / vstack / block_diag specs compared with the real functions on every case.',
        'DESIGN.md section 4, C10',
    ),
    'C05': (
        'Coq proof, for all expression trees, that the declared output structure is what application returns: at value '
        'level (tree shape and leaf sizes, any carrier, with definedness inside well-formed composites) by induction from a '
        'leaf honesty fact, and at abstract-evaluation level (tree, leaf shapes and dtypes over the C20 promotion lattice: '
        'the model of jax.eval_shape) under the explicit boolean guards params_not_wider and dtypes_available; structures of '
        'compositions, sums, blocks, lazy duals and transposes, sizes, promoted dtype = lattice join; leaf facts '
        'discharged for the executable leaf rules and for measured-matrix leaves; differential correspondence in both x64 modes',
        'out_structure_honest, application_defined, sizes_agree, block_sizes, promoted_dtype_is_join, '
        'out_structure_honest_dtypes, declared_is_evaluated, composite_structs, transpose_structs, exec_leaf_honest/defined: '
        'all obligations (count in the evidence file) closed under the global context (incl. the shape model of the diagonal constructors: diagonal_ctor_honest). Tie: C-tie on every class x layouts x data dtype {f32,f64,i32,mixed} '
        'x parameter dtype x x64 on/off: out_structure() vs eval_shape vs actual mv(x) vs model (~6000 quick / ~52000 thorough); axis operators '
        '(ravel, reshape, move-axis, index, diagonal, pack) on pytrees whose leaves have DIFFERENT ranks, both leaf orders, alone / reduced / in 18 contexts, '
        'compared with Model/Axes.v and NumPy per leaf (axes_reduce_keeps_structures, axes_reduce_identity_needs_all_leaves); T-tie Props/Tables.v '
        '(which classes override out_structure / in_structure / reduce / transpose / inverse).',
        'The structures of REDUCED and INVERTED operators are proved in Props/C01Structs.v (reduce_structs) and '
        'Props/C06Structs.v (inverse_structs), compiled by the C01 / C06 checks, and compared here on the real objects. Default-out_structure leaves carry the real declaration in the term; JAX eval_shape / '
        'result_type / linear_transpose trusted; cases outside the guards (wider parameters, dtype unavailable in the mode) '
        'are counted separately, not alarmed on.',
        'DESIGN.md section 4, C05',
    ),
    'C06': (
        'Coq proofs over an executable model of inverse() on the shared operator core, over any field with decidable '
        'equality: closed forms (scalar, diagonal, QU rotation, move-axis, block-diagonal over any container nesting) are '
        'two-sided inverses; Moore-Penrose equations for every diagonal (zeros allowed, no division by zero evaluated); the '
        'general two-sided-inverse statement by induction over all expression trees under explicit invertibility guards '
        'and the lazy-inverse-as-exact-solver hypothesis; X.I.I; refusal of non-square operators; as_matrix of a lazy '
        'inverse tied to a certified Gauss-Jordan inverse; CG convergence tested numerically only',
        'homothety_inv, diag_inv, diag_pinv_moore_penrose, diag_pinv_projection, orthogonal_inv_rotation/moveaxis, '
        'inverse_two_sided, blockdiag_inv, blockdiag_inverse_blockwise, inverse_of_lazy_inverse, inv_inv, '
        'inverse_refuses_nonsquare, inverse_cases, lazy_inverse_matrix, inverse_structs, inv_inv_full (premise-free), '
        'inv_inv_total: all obligations (count in the evidence file) closed under the global context. '
        'Tie: C-tie on the whole alphabet + closed-form parameter scopes (all zero masks n<=4, move-axis tuples, rotation '
        'residues, nested block containers): skeleton/identities of op.I and op.I.I, structures, dense matrices, refusal kind; '
        'T-tie Props/Tables.v (method resolution of inverse). Oracle-only classes (no model comparison): cg-seq (sequences of differently '
        'configured lazy inverses passed as ARGUMENTS of one jitted function: every static config field must separate jit cache entries and '
        'each call must meet ITS tolerance), cg-solvers (every lineax solver class with and without max_steps under furax\'s DEFAULT callback), '
        'mixed-* (closed-form inverses under x64 on/off x parameter dtype x data dtype with parameters up to 1e6).',
        'Partial: "A.I(y) solves A z = y to the solver tolerance" is a floating-point convergence statement about lineax CG: '
        'tested on ~400 (quick) SPD solves (kinds cg, cg-nested, cg-seq, cg-solvers), not proved. Algebra.inverse of the shared core is not recursive on nested '
        'block-diagonals; C06 uses inverse_r with an agreement lemma.',
        'DESIGN.md section 4, C06',
    ),
    'C04': (
        'Coq proof, for all expression trees over a commutative ring, of linearity (homogeneity + additivity through '
        'compositions, sums and blocks, from the two leaf linearity facts) and that every as_matrix override (identity, '
        'scalar, sum, block row/diagonal/column over nested containers, ravel/reshape, lazy inverse, composites) '
        'REPRESENTS the application (M.flat(x) = flat(op x), pytree-leaf then row-major order) and hence equals the generic '
        'column construction; the generic fori_loop is transcribed literally (jcounter, .at[].set) beside its column form; '
        'differential correspondence of the three real dense forms with both model forms',
        'denote_homogeneous, denote_additive, denote_linear, sum_represents, block_represents, '
        'identity_scalar_override_is_generic, represents_implies_generic, matrix_determined_by_products closed and '
        'premise-free; generic_loop_is_columns (the transcribed fori_loop builds exactly the column matrix) proved for every '
        'term; apply_is_matvec for every honest operator; override_represents / override_eq_generic under named leaf '
        'premises; as_matrix_resolution_as_modelled ties the dispatch to the regenerated method table. All obligations closed under the global context. Tie: T-tie Props/Tables.v; C-tie on ~790 (quick) / ~7200 (thorough) operators incl. complex and mixed dtypes, all Toeplitz methods: '
        'op.as_matrix(), AbstractLinearOperator.as_matrix(op), the mv(e_j) matrix, linearity probes, vs x_as_matrix / '
        'x_generic / Exec.mat.',
        'For abstract leaves override_eq_generic carries the premises HON (C05 honesty, derivable via honesty_premise_from_C05) and the '
        'leaf-level premises HOV / HRESH / HINV / HSOLVE; for the EXECUTABLE semantics they are discharged (Props/C04Exec.v, Lemmas/AsMatrixOvL.v: '
        'exec_override_eq_generic[_min], exec_override_eq_generic_full[_min], exec_override_represents, x_minv_inverts / x_minv_complete; HSOLVE not '
        'needed) under decidable wfo, dtable_okb (implied by table_okb), otable_okb evaluated by vm_compute on every compared case; Props/C04Leaf.v '
        'proves the otable_okb condition outright for closed-form 1-d diagonals and from the identity table matrix for ravel / reshape; measured n-d '
        'Diagonal / Toeplitz / DiagonalInverse overrides stay run-time checks inside otable_okb and array-level '
        'leaf overrides rest on C09/C11 (their own models). Call-style probes (op(x) and op.mv(x) with jax / NumPy / Python leaves of declared and '
        'wider dtypes) are oracle-only. lin_facts IS discharged for the executable semantics '
        '(Props/ExecFacts.v: exec_lin_facts, exec_denote_linear, exec_apply_is_matvec under the decidable table_okb, which the '
        'C01 run evaluates on every real expression). Trusts measured leaf '
        'matrices, textbook hstack/vstack/block_diag/inv, float32 snapped to rationals; dtypes not modelled here (C05).',
        'DESIGN.md section 4, C04',
    ),
    'C03': (
        'Coq proof over the shared operator-term model, for all expression trees (any depth, any container nesting) over a '
        'commutative ring: <e x, y> = <x, e.T y> by induction from named leaf adjointness facts with closure lemmas '
        '(composition reverses, sums operand-wise, block row<->column, inner product splits along any container), '
        'structures swapped, e.T well-formed, e.T.T denotes e, structural identities (X.T.T is X, symmetric classes return '
        'self, reversed composition); leaf facts discharged for the executable semantics of rotation / rotation-transpose / '
        'HWP / 1-d diagonal and for matrix-backed lazy transposes; differential correspondence with NumPy oracle',
        'transpose_adjoint, transpose_in_domain, adjoint_of_composition, inner_splits, transpose_structs, '
        'transpose_well_formed, transpose_involutive, transpose_of_lazy_is_operand, symmetric_returns_self, '
        'composition_reversed, block_row_column_swapped, inverse_transpose_excluded, exec_leaf_facts, '
        'exec_transpose_is_adjoint, table_transpose_is_adjoint, fresh_lazy_transpose_is_adjoint: all obligations (count in the evidence file) closed under '
        'the global context. Tie: C-tie on ~160 operands (einsum variants incl. repeated letters, axes, index, diagonal, '
        'Toeplitz, obs-matrix, explicit TransposeOperators) in 10 contexts: skeleton, structures, dense matrices of e.T and '
        'e.T.T, integer-probe inner products (~3000 quick / ~25600 thorough).',
        'The matrix form mat(e.T) = mat(e)^T is a theorem for the executable semantics (Props/C03Mat.v: harness_transpose_matrix, '
        'harness_transpose_involutive_matrix, exec_transpose_matrix; 18 statements) under decidable hypotheses (wfo, sym_square, table_okb, '
        'ptable_okb, transposeT_okb) that are evaluated by vm_compute on every model-compared case and must be true; a selfT stream covers every '
        'class whose transpose() returns self (discovered from the package, fail-closed) across its parameter space (Toeplitz: 4 methods x explicit '
        'fft sizes x K>n). transpose_involutive covers wrappers as .T creates them. Trusted: '
        'jax.linear_transpose yields the adjoint of an opaque operator (validated numerically on every operand); '
        'table-backed leaf facts rest on measured matrices (element-level proofs in C09/C11/C13/C14). Transposes of the '
        'iterative inverse are excluded (unsupported by the library).',
        'DESIGN.md section 4, C03',
    ),
}

PENDING_REASON = 'check not built yet in this session (work in progress; see DESIGN.md section 8 for the order of work)'


def main():
    props = [json.loads(l) for l in (VERIF / 'properties.jsonl').read_text().splitlines() if l.strip()]
    checks = []
    na = []
    for p in props:
        pid = p['id']
        if pid in CLAIMED:
            tech, text, note, ref = CLAIMED[pid]
            checks.append(
                {
                    'property_id': pid,
                    'quick_cmd': f'./check {pid} --tier quick',
                    'thorough_cmd': f'./check {pid} --tier thorough',
                    'evidence_file': f'/verif/evidence/{pid}.json',
                    'replay_cmd_template': f'./check {pid} --replay {{path}}',
                    'engine': 'coq-model+correspondence',
                    'level_claimed': {'category': 'proof', 'text': text, 'design_ref': ref},
                    'level_note': note,
                    'technique': tech,
                }
            )
        else:
            na.append({'property_id': pid, 'reason': PENDING_REASON})
    manifest = {
        'version': 1,
        'setup_cmd': '/verif/tools/setup.sh',
        'hooks': {
            'guard': 'FURAX_VERIF',
            'enable': 'no source hooks are needed: every observation point is public API (checks export FURAX_VERIF=1 anyway)',
            'baseline_off_cmd': 'cd /repo && /venv/bin/python -m pytest -ra -q -p no:cacheprovider --timeout=900 --continue-on-collection-errors',
            'source_commits': [],
            'add_only': True,
        },
        'engines': [
            {
                'name': 'coq-model+correspondence',
                'path': '/verif/check',
                'serves_properties': sorted(CLAIMED),
                'kind_free_text': 'Rocq/Coq 8.16 theorems about a Gallina model (coq/theories), translators regenerating '
                'Gen/*.v from /repo (tools/translate), differential correspondence harness running the real furax '
                'and the vm_compute-evaluated model on the same inputs (harness/)',
            }
        ],
        'checks': checks,
        'notes': 'See DESIGN.md. KNOWN_FINDINGS.txt lists recorded findings and fixed: entries.',
        'not_applicable': na,
    }
    (VERIF / 'MANIFEST.json').write_text(json.dumps(manifest, indent=1) + '\n')
    print(f'{len(checks)} checks, {len(na)} pending')


if __name__ == '__main__':
    main()
