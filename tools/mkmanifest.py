#!/usr/bin/env python3
"""Writes /verif/MANIFEST.json from the table below (kept in one place so it always validates)."""
import json
from pathlib import Path

VERIF = Path('/verif')

# id -> (technique, level text, level note, design ref)
CLAIMED = {
    'C19': (
        'Coq proof (induction over histories, frame/isolation lemma over all schedules) of a hand-written '
        'Gallina state machine + differential correspondence with the real Config/InverseOperator/threads',
        'All well-nested histories of any depth and all thread schedules are covered by theorems about the model '
        '(restore, innermost_wins, ends_with_defaults, capture, thread_isolation); the model is tied to the code by '
        'running the same histories (exhaustive up to 5-6 events, plus seeded random, plus all interleavings of short '
        'thread histories on real threads) on the real code and on the model evaluated by vm_compute.',
        'Trusts CPython contextvars semantics as modelled, the abstraction of setting values to identifiers, the '
        'correspondence harness; Coq kernel; no axioms (theorems closed under the global context).',
        'DESIGN.md section 4, C19',
    ),
    'C01': (
        'Coq proof by induction on fuel / expression / scan steps that reduce() preserves the denotation, for any rule '
        'order and any leaf semantics satisfying the stated algebraic facts; T-tie (rule registry, class hierarchy, '
        'method resolution regenerated from the package and compared in Coq); differential correspondence of reduce() '
        'on real operator expressions (skeleton, structures, dense matrix)',
        'reduce_sound: for every expression tree, registry order and fuel, if reduce returns e then every input the '
        'original accepts gives the same output through e (model level, all inputs). The model is tied to the code by '
        'regenerated tables (compiled and compared on every run) and by running reduce() of ~2400 (quick) / ~15000 '
        '(thorough) real expressions against the vm_compute-evaluated model, with the dense matrix of reduce(e) also '
        'compared with that of e on the implementation.',
        'Partial: termination without raising and preservation of declared structures are not proved in Coq (checked '
        'by the correspondence on every case). Trusts: leaf_facts for opaque operators (linearity, lazy inverse inverts), '
        'the table translator, the harness, matrices of leaf operators measured on the real code, Coq kernel.',
        'DESIGN.md section 4, C01',
    ),
    'C07': (
        'Coq proof of the scan loop invariant (pairs left of index irreducible), of the scalar-count and identity-freedom '
        'invariants, for any registry order; T-tie on the registry; structural correspondence of reduce() results',
        'reduced_chain_is_normal / pattern_never_survives: in the result of the n-ary reduction no adjacent pair is '
        'reducible by any registered rule, at most one scalar remains, no identity remains - for all chains, contexts and '
        'lengths (model level). Tie: skeleton (classes, object identities, merged parameters, scalar position) of '
        'reduce() on every documented pattern in 9 construction contexts, embedded at every position of typed contexts, '
        'pairs of patterns and sampled chains, compared with the model; oracle re-applies the real rules to the result.',
        'Partial: the placement of the remaining scalar on the smaller side is checked by correspondence and oracle, not '
        'proved. Trusts the table translator, harness-assigned object identities, the harness, Coq kernel.',
        'DESIGN.md section 4, C07',
    ),
    'C09': (
        'Coq proof, for all n, K (K > n included), FFT sizes >= 2K-1 and batch shapes, that the four evaluation kernels '
        '(dense, direct, fft, overlap_save) equal the banded product, over an arbitrary commutative ring; the integer '
        'arithmetic of toeplitz.py (padding, block count, offsets, slice bounds, default FFT size, constructor '
        'validation, dtype of the output buffer) is REGENERATED from the source by a fail-closed ast translator on every '
        'run and the theorems are re-proved against it; differential correspondence with the real operator',
        'dense_spec, T_symmetric, dense/direct/fft/overlap_save_eq, mv_correct (end to end from an accepted constructor '
        'call, batched rows), as_matrix block-diagonal, ctor_rejects / ctor_accepts_admissible, dtype_preserved, '
        'default_fft_ok: all sizes, no bound. Tie: T-tie FuraxGen.ToeplitzArith + C-tie on all n<=12, K<=6, admissible and '
        'inadmissible fft sizes, 4 methods, batch shapes, dtypes x x64 modes, plus spec_* cases validating the Gallina '
        'specifications of the JAX primitives.',
        'Trusts the DFT convolution theorem for jnp.fft (circular convolution spec), the Gallina specs of pad/convolve/'
        'dynamic_slice/dynamic_update_slice/vectorize/block_diag (validated against JAX by spec cases), exact ring '
        'arithmetic standing for floating point, the translator tools/translate/toeplitz.py, the harness, Coq kernel.',
        'DESIGN.md section 4, C09',
    ),
    'C13': (
        'Coq proof over all ranks, axis tuples (any signs/lengths) and shapes that MoveAxis is the numpy.moveaxis '
        'permutation with transpose = inverse, that Ravel/Reshape keep row-major data (so transpose = inverse), exact '
        'iff-characterisations of constructor acceptance (ravel guards, -1 inference), reduce-to-identity iff no-op, '
        'soundness of the two inverse rules; differential correspondence with the real operators',
        'moveaxis_spec/inverse/inverse_pytree/T_inverse/rule_sound, ravel_ctor_iff/assert_unreachable/spec, '
        'reshape_ctor_iff/completed_shape/data_identity/reshapeT_restores_shape, reduce_identity_iff_noop, '
        'reshape_rule_sound: all inputs (model level). Tie: C-tie on ~9000 (quick) constructor calls and applications: '
        'all leaf shapes of rank <= 4 over dims {1,2,3}, all source/destination tuples, all (first,last) in [-5,5]^2, all '
        'factorisations with -1, malformed stream, pytrees of different ranks; oracle numpy.moveaxis/reshape.',
        'Trusts the Gallina specs of jnp.moveaxis / reshape / jax.tree.map (validated on the enumerated scope), '
        'harness-assigned object identities for `is`, the harness, Coq kernel.',
        'DESIGN.md section 4, C13',
    ),
    'C14': (
        'Coq proof that for every subscript string accepted by the (transcribed) rewriting function the rewritten einsum is '
        'the exact adjoint (re-indexing of the triple sum along the swap of the contracted and free block letters), '
        'involutivity, exact accept/reject characterisation, every rejection a ValueError; the pinned (pre-fix) '
        'first-occurrence swap is kept as a refuted variant; differential correspondence on all short strings',
        'rewrite_adjoint / rewrite_adjoint_mv / rewrite_adjoint_Z (all strings, shapes, blocks, inputs), accepts_iff, '
        'rejects_without_rewriting, outcome_total, rewrite_involutive. Tie: C-tie on every string l,r->o over {i,j,k,...} up '
        'to the enumerated lengths plus malformed strings (outcome compared), and mv / T.mv / dense matrices on integer '
        'blocks; oracle mat(op.T) = mat(op)^T with NumPy einsum.',
        'Trusts the textbook einsum specification for jnp.einsum (size-1 ellipsis broadcasting not modelled), Python '
        'string/set operations as transcribed, the harness, Coq kernel.',
        'DESIGN.md section 4, C14',
    ),
    'C17': (
        'Coq proof for any number of dimensions that pixel2index is the mixed-radix bijection (first coordinate fastest) '
        'with round-half-even, -1 exactly for coordinates outside the map, no wrap-around for the chosen integer width '
        '(machine-integer wrap written into the model), dtype wide enough, coverage = histogram; differential '
        'correspondence incl. maps around 2^31 pixels in both x64 modes; healpy agreement tested numerically only',
        'p2i_spec/formula/row_major/bijection_*/outside/minus_one_iff/rounding/no_wrap/invalid_masked, dtype_wide_enough, '
        'dtype_dims_strides_fit, coverage_histogram, constructor theorems: all shapes, all coordinates. Tie: C-tie on '
        'quarter-integer grids over all small shapes and on adversarial huge shapes (2^31 boundary), coverage on random and '
        'adversarial samplings. Partial: jax_healpy.ang2pix vs healpy is a numerical cross-check, not a theorem.',
        'Trusts Gallina specs of jnp.round, astype saturation, int32/int64 wrap, unique/scatter-add (compared with JAX), '
        'coordinates as exact rationals, jax_healpy.ang2pix not modelled (healpy clause partial), the harness, Coq kernel.',
        'DESIGN.md section 4, C17',
    ),
}

PENDING_REASON = 'check not built yet in this session (work in progress; see DESIGN.md section 8 for the order of work)'


def main():
    props = [json.loads(l) for l in (VERIF / 'properties.jsonl').read_text().splitlines() if l.strip()]
    checks = []
    na = []
    for p in props:
        pid = p['id']
        if pid in CLAIMED:
            tech, text, note, ref = CLAIMED[pid]
            checks.append(
                {
                    'property_id': pid,
                    'quick_cmd': f'./check {pid} --tier quick',
                    'thorough_cmd': f'./check {pid} --tier thorough',
                    'evidence_file': f'/verif/evidence/{pid}.json',
                    'replay_cmd_template': f'./check {pid} --replay {{path}}',
                    'engine': 'coq-model+correspondence',
                    'level_claimed': {'category': 'proof', 'text': text, 'design_ref': ref},
                    'level_note': note,
                    'technique': tech,
                }
            )
        else:
            na.append({'property_id': pid, 'reason': PENDING_REASON})
    manifest = {
        'version': 1,
        'setup_cmd': '/verif/tools/setup.sh',
        'hooks': {
            'guard': 'FURAX_VERIF',
            'enable': 'no source hooks are needed: every observation point is public API (checks export FURAX_VERIF=1 anyway)',
            'baseline_off_cmd': 'cd /repo && /venv/bin/python -m pytest -ra -q -p no:cacheprovider --timeout=900 --continue-on-collection-errors',
            'source_commits': [],
            'add_only': True,
        },
        'engines': [
            {
                'name': 'coq-model+correspondence',
                'path': '/verif/check',
                'serves_properties': sorted(CLAIMED),
                'kind_free_text': 'Rocq/Coq 8.16 theorems about a Gallina model (coq/theories), translators regenerating '
                'Gen/*.v from /repo (tools/translate), differential correspondence harness running the real furax '
                'and the vm_compute-evaluated model on the same inputs (harness/)',
            }
        ],
        'checks': checks,
        'notes': 'See DESIGN.md. KNOWN_FINDINGS.txt lists recorded findings and fixed: entries.',
        'not_applicable': na,
    }
    (VERIF / 'MANIFEST.json').write_text(json.dumps(manifest, indent=1) + '\n')
    print(f'{len(checks)} checks, {len(na)} pending')


if __name__ == '__main__':
    main()
