#!/bin/bash
# usage: seedsweep.sh <seed> [props...] ; runs quick checks with that seed, evidence/replays/work redirected
s=$1; shift; out=/tmp/seedsweep/$s; mkdir -p $out/ev $out/rp
props=${@:-C01 C02 C03 C04 C05 C06 C07 C08 C09 C10 C11 C12 C13 C14 C15 C16 C17 C18 C19 C20}
cd /verif
for p in $props; do
  VERIF_SEED=$s VERIF_TIER=quick VERIF_WORK_DIR=/tmp/seedsweep/work$s$SUF VERIF_EVIDENCE_DIR=$out/ev VERIF_REPLAYS_DIR=$out/rp ./check $p --tier quick 2>&1 | grep -E "^(VIOLATION|KNOWN|C[0-9]+ quick|  broken)" | cut -c1-400
done
