#!/bin/bash
# MANIFEST.setup_cmd: full .vo build of the Coq development from files on disk (offline).
# Files listed in _CoqProject that do not exist yet (work in progress) are skipped; `make -k` keeps
# going past a file that fails so that every property whose closure builds is usable - each check
# rebuilds its own closure (harness/lib.py ensure_static_build) and reports a failure there.
HERE="$(cd "$(dirname "${BASH_SOURCE[0]}")/.." && pwd)"
cd "$HERE/coq" || exit 2
grep -v '\.v$' _CoqProject > _CoqProject.build
for f in $(grep '\.v$' _CoqProject); do [ -f "$f" ] && echo "$f" >> _CoqProject.build; done
coq_makefile -f _CoqProject.build -o Makefile || exit 2
timeout 3000 make -k -j8 2>&1 | tail -30
exit 0
