"""Fail-closed translator: furax/projections.py  ->  EulerMatrix.v  (logical path FuraxGen).

What is translated (from the AST of the working tree, on every check):
  * get_rotation_matrix: the binding of (alpha, beta, gamma) to the attributes of `samplings`, the
    binding of the six local names to jnp.sin / jnp.cos of those, and the nine entries of the
    `jnp.array([[...], [...], [...]], dtype=jnp.float64)` literal
        -> euler_entries : K -> K -> K -> K -> K -> K -> list (list K)
    a polynomial (kadd/ksub/kmul/kopp, integer literals 0 and 1) in the six CANONICAL arguments
    s_phi c_phi s_theta c_theta s_pa c_pa: a local name is replaced by (function, sampling attribute)
    it is bound to, so exchanging `samplings.phi` and `samplings.theta`, or sin and cos, changes the
    generated polynomial exactly as it changes the computed matrix.
  * create_projection_operator: the statement `rotated_coords = jnp.einsum(<literal>, rot,
    detector_dirs.coords)` with `rot = get_rotation_matrix(samplings)`: the subscripts
        -> einsum_rotated : (nat -> nat -> nat -> K) -> (nat -> nat -> nat -> K) -> nat -> ... -> K
    by their index meaning: out[<output letters>] = sum over the contracted letter (which must sit on
    the axes of length 3: second axis of `rot`, first axis of `coords`) of A[<letters 1>] * B[<letters 2>];
    and the statements that consume it (`theta, phi = vec2dir(*rotated_coords)`,
    `indices = landscape.world2index(theta, phi)`, `rotation = QURotationOperator(samplings.pa, ...)`)
    are *matched*.
Anything else (another statement shape, an unknown name, another operator, a re-assignment) raises Tie.
"""
from __future__ import annotations

import ast
import sys
from pathlib import Path

try:  # run inside the harness
    from lib import Tie
except Exception:  # stand-alone use

    class Tie(Exception):
        pass


REL = 'src/furax/projections.py'
ANGLE_ATTRS = ('phi', 'theta', 'pa')
COQ_KEYWORDS = {'fun', 'let', 'in', 'if', 'then', 'else', 'match', 'end', 'as', 'at', 'fix', 'for', 'with', 'forall', 'exists'}


def die(node, why):
    line = getattr(node, 'lineno', '?')
    src = ast.unparse(node) if isinstance(node, ast.AST) else str(node)
    raise Tie(f'translator euler.py: {why} at line {line}: {src[:160]}')


def find_function(tree: ast.Module, name: str) -> ast.FunctionDef:
    found = [n for n in tree.body if isinstance(n, ast.FunctionDef) and n.name == name]
    if len(found) != 1:
        raise Tie(f'translator euler.py: expected exactly one top-level function {name}, found {len(found)}')
    return found[0]


def body_without_docstring(fn: ast.FunctionDef) -> list[ast.stmt]:
    body = list(fn.body)
    if body and isinstance(body[0], ast.Expr) and isinstance(body[0].value, ast.Constant) and isinstance(body[0].value.value, str):
        body = body[1:]
    return body


def names_of_tuple(node, n) -> list[str]:
    if not isinstance(node, ast.Tuple) or len(node.elts) != n or not all(isinstance(e, ast.Name) for e in node.elts):
        die(node, f'a tuple of {n} names expected')
    return [e.id for e in node.elts]


def is_jnp_call(node, fname) -> bool:
    return (
        isinstance(node, ast.Call)
        and isinstance(node.func, ast.Attribute)
        and isinstance(node.func.value, ast.Name)
        and node.func.value.id == 'jnp'
        and node.func.attr == fname
    )


# ------------------------------------------------------------------------------------------------
# get_rotation_matrix


def poly(node, env: dict[str, str]) -> str:
    """Python arithmetic over the six trig names -> Coq term over kadd/ksub/kmul/kopp."""
    if isinstance(node, ast.Name):
        if node.id not in env:
            die(node, f'unknown name {node.id} in a matrix entry')
        return env[node.id]
    if isinstance(node, ast.Constant) and type(node.value) is int and node.value in (0, 1):
        return 'k0' if node.value == 0 else 'k1'
    if isinstance(node, ast.UnaryOp):
        if isinstance(node.op, ast.USub):
            return f'(kopp {poly(node.operand, env)})'
        if isinstance(node.op, ast.UAdd):
            return poly(node.operand, env)
        die(node, 'unsupported unary operator')
    if isinstance(node, ast.BinOp):
        op = {ast.Add: 'kadd', ast.Sub: 'ksub', ast.Mult: 'kmul'}.get(type(node.op))
        if op is None:
            die(node, 'unsupported binary operator (only + - * are polynomial)')
        return f'({op} {poly(node.left, env)} {poly(node.right, env)})'
    die(node, 'expression outside the polynomial grammar')


def translate_rotation_matrix(fn: ast.FunctionDef):
    if [a.arg for a in fn.args.args] != ['samplings'] or fn.args.vararg or fn.args.kwarg or fn.args.kwonlyargs:
        die(fn, 'get_rotation_matrix(samplings) expected')
    if fn.decorator_list:
        die(fn, 'get_rotation_matrix is not expected to be decorated')
    body = body_without_docstring(fn)
    if len(body) != 6:
        die(fn, f'6 statements expected in get_rotation_matrix, found {len(body)}')
    # alpha, beta, gamma = samplings.phi, samplings.theta, samplings.pa
    st = body[0]
    if not (isinstance(st, ast.Assign) and len(st.targets) == 1):
        die(st, 'angle binding expected')
    angle_names = names_of_tuple(st.targets[0], 3)
    if len(set(angle_names)) != 3:
        die(st, 'three distinct angle names expected')
    if not (isinstance(st.value, ast.Tuple) and len(st.value.elts) == 3):
        die(st, 'a tuple of three sampling attributes expected')
    angle_of: dict[str, str] = {}
    for name, e in zip(angle_names, st.value.elts):
        if not (isinstance(e, ast.Attribute) and isinstance(e.value, ast.Name) and e.value.id == 'samplings' and e.attr in ANGLE_ATTRS):
            die(e, 'samplings.phi / samplings.theta / samplings.pa expected')
        angle_of[name] = e.attr
    # sK, cK = jnp.sin(X), jnp.cos(X)
    env: dict[str, str] = {}
    for st in body[1:4]:
        if not (isinstance(st, ast.Assign) and len(st.targets) == 1):
            die(st, 'trig binding expected')
        a, b = names_of_tuple(st.targets[0], 2)
        if not (isinstance(st.value, ast.Tuple) and len(st.value.elts) == 2):
            die(st, 'a pair of trig calls expected')
        for name, call in zip((a, b), st.value.elts):
            fname = 'sin' if is_jnp_call(call, 'sin') else 'cos' if is_jnp_call(call, 'cos') else None
            if fname is None or len(call.args) != 1 or call.keywords or not isinstance(call.args[0], ast.Name):
                die(call, 'jnp.sin(<angle>) or jnp.cos(<angle>) expected')
            if call.args[0].id not in angle_of:
                die(call, f'unknown angle {call.args[0].id}')
            if name in env or name in angle_of:
                die(st, f're-assignment of {name}')
            env[name] = f'{fname[0]}_{angle_of[call.args[0].id]}'
    # r = jnp.array([[..],[..],[..]], dtype=jnp.float64)
    st = body[4]
    if not (isinstance(st, ast.Assign) and len(st.targets) == 1 and isinstance(st.targets[0], ast.Name)):
        die(st, 'matrix literal assignment expected')
    rname = st.targets[0].id
    call = st.value
    if not is_jnp_call(call, 'array') or len(call.args) != 1:
        die(st, 'jnp.array(<3x3 literal>, dtype=jnp.float64) expected')
    if [k.arg for k in call.keywords] != ['dtype'] or ast.unparse(call.keywords[0].value) != 'jnp.float64':
        die(st, 'dtype=jnp.float64 expected')
    lit = call.args[0]
    if not (isinstance(lit, ast.List) and len(lit.elts) == 3 and all(isinstance(r, ast.List) and len(r.elts) == 3 for r in lit.elts)):
        die(lit, 'a 3x3 nested list literal expected')
    rows = [[poly(e, env) for e in r.elts] for r in lit.elts]
    st = body[5]
    if not (isinstance(st, ast.Return) and isinstance(st.value, ast.Name) and st.value.id == rname):
        die(st, f'return {rname} expected')
    binding = {angle_names[k]: angle_of[angle_names[k]] for k in range(3)}
    return rows, binding, env


# ------------------------------------------------------------------------------------------------
# create_projection_operator


def find_assign(body, target_src: str):
    found = [s for s in body if isinstance(s, ast.Assign) and len(s.targets) == 1 and ast.unparse(s.targets[0]) == target_src]
    if len(found) != 1:
        raise Tie(f'translator euler.py: expected exactly one top-level assignment to `{target_src}` in create_projection_operator, found {len(found)}')
    return found[0]


def translate_einsum(fn: ast.FunctionDef):
    if [a.arg for a in fn.args.args] != ['landscape', 'samplings', 'detector_dirs']:
        die(fn, 'create_projection_operator(landscape, samplings, detector_dirs) expected')
    body = body_without_docstring(fn)
    rot = find_assign(body, 'rot')
    if ast.unparse(rot.value) != 'get_rotation_matrix(samplings)':
        die(rot, 'rot = get_rotation_matrix(samplings) expected')
    st = find_assign(body, 'rotated_coords')
    call = st.value
    if not is_jnp_call(call, 'einsum') or call.keywords or len(call.args) != 3:
        die(st, 'jnp.einsum(<subscripts>, rot, detector_dirs.coords) expected')
    sub, a, b = call.args
    if not (isinstance(sub, ast.Constant) and isinstance(sub.value, str)):
        die(sub, 'literal einsum subscripts expected')
    if ast.unparse(a) != 'rot' or ast.unparse(b) != 'detector_dirs.coords':
        die(st, 'operands (rot, detector_dirs.coords) expected, in this order')
    # the consumers of rotated_coords and of the position angle (matched, not translated)
    expect = {
        '(theta, phi)': 'vec2dir(*rotated_coords)',
        'indices': 'landscape.world2index(theta, phi)',
        'rotation': 'QURotationOperator(samplings.pa, tod_structure)',
    }
    for tgt, src in expect.items():
        got = [s for s in body if isinstance(s, ast.Assign) and len(s.targets) == 1 and ast.unparse(s.targets[0]) in (tgt, tgt.strip('()')) and ast.unparse(s.value) == src]
        if len(got) != 1:
            raise Tie(f'translator euler.py: statement `{tgt} = {src}` expected once in create_projection_operator')
    text = sub.value.replace(' ', '')
    if text.count('->') != 1 or text.count(',') != 1:
        die(sub, 'explicit two-operand subscripts `abc,bde->adec` expected')
    ins, out = text.split('->')
    in1, in2 = ins.split(',')
    for s, n in ((in1, 3), (in2, 3), (out, 4)):
        if len(s) != n or len(set(s)) != n or not s.isalpha() or not s.islower():
            die(sub, f'operand subscripts {s!r}: {n} distinct lower-case letters expected')
    contracted = [c for c in dict.fromkeys(in1 + in2) if c not in out]
    if len(contracted) != 1:
        die(sub, f'exactly one contracted letter expected, found {contracted}')
    j = contracted[0]
    if set(out) != (set(in1) | set(in2)) - {j} or any(c in in1 and c in in2 for c in out):
        die(sub, 'output letters must be the free letters, each from one operand')
    # the contracted letter must be on an axis of length 3 of BOTH operands: rot is (3, 3, nsampling),
    # coords is (3, ndet, ndir)
    if j not in in1 or j not in in2:
        die(sub, 'the contracted letter must occur in both operands')
    if in1.index(j) not in (0, 1) or in2.index(j) != 0:
        die(sub, 'the contracted letter must index an xyz axis (length 3) of both operands')
    return text, in1, in2, out, j


# ------------------------------------------------------------------------------------------------


def var(c: str) -> str:
    return f'x_{c}'


def translate(repo: Path) -> str:
    path = Path(repo) / REL
    try:
        source = path.read_text()
        tree = ast.parse(source)
    except (OSError, SyntaxError) as e:
        raise Tie(f'translator euler.py: cannot parse {path}: {e}')
    rows, binding, env = translate_rotation_matrix(find_function(tree, 'get_rotation_matrix'))
    text, in1, in2, out, j = translate_einsum(find_function(tree, 'create_projection_operator'))

    def term(k):
        a = ' '.join(str(k) if c == j else var(c) for c in in1)
        b = ' '.join(str(k) if c == j else var(c) for c in in2)
        return f'(kmul (A {a}) (B {b}))'

    lines = [
        f'(* GENERATED on every check by tools/translate/euler.py from {REL} - do not edit. *)',
        'From Coq Require Import List String.',
        'Import ListNotations.',
        '(* the nine entries of the jnp.array literal of get_rotation_matrix; arguments are',
        '   sin/cos of samplings.phi, samplings.theta, samplings.pa in this fixed order *)',
        'Definition euler_entries (K : Type) (k0 k1 : K) (kadd kmul ksub : K -> K -> K) (kopp : K -> K)',
        '    (s_phi c_phi s_theta c_theta s_pa c_pa : K) : list (list K) :=',
        '  [' + ';\n   '.join('[' + '; '.join(r) + ']' for r in rows) + '].',
        f'(* jnp.einsum({text!r}, rot, detector_dirs.coords) by its index meaning *)',
        'Definition einsum_rotated (K : Type) (k0 k1 : K) (kadd kmul ksub : K -> K -> K) (kopp : K -> K)',
        '    (A B : nat -> nat -> nat -> K) ' + '(' + ' '.join(var(c) for c in out) + ' : nat) : K :=',
        f'  kadd (kadd {term(0)} {term(1)}) {term(2)}.',
        f'Definition einsum_subscripts : string := "{text}"%string.',
        'Definition angle_binding : list (string * string) := ['
        + '; '.join(f'("{k}"%string, "{v}"%string)' for k, v in binding.items())
        + '].',
        'Definition trig_binding : list (string * string) := ['
        + '; '.join(f'("{k}"%string, "{v}"%string)' for k, v in env.items())
        + '].',
        '',
    ]
    return '\n'.join(lines)


if __name__ == '__main__':
    sys.stdout.write(translate(Path(sys.argv[1] if len(sys.argv) > 1 else '/repo')))
