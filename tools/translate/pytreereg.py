"""T-tie translator for C18: regenerates Gen/PytreeReg.v and Gen/FieldTable.v from the imported furax
package (Python ast + inspect; fail closed: anything not recognised raises Tie).

Gen/PytreeReg.v
  gen_table        : list cdesc - one entry per class registered as a JAX pytree node through a
                     hand-written tree_flatten/tree_unflatten pair (and every furax class of their
                     MRO that defines an __init__ the chain reaches): constructor parameters
                     (inspect.signature), constructor body (AST -> Model.PytreeReg.stmt), children and
                     aux keys of the tree_flatten in use (AST of the tuple/dict literals), the call made
                     by the tree_unflatten in use (MRO), registration status (JAX registry, cross-checked
                     with the decorator in the AST)
  gen_unregistered : classes that define the pair but are NOT registered (ConfigState)
Gen/FieldTable.v
  gen_fields       : per operator class (every subclass of AbstractLinearOperator defined in furax) the
                     dataclass fields in order, with static flag (equinox metadata) and kind (annotation)
"""
from __future__ import annotations

import ast
import dataclasses
import importlib
import inspect
import pkgutil
import sys
import textwrap
from pathlib import Path

sys.path.insert(0, str(Path(__file__).resolve().parents[2] / 'harness'))
from lib import Tie  # noqa: E402

EKINDS = {'TypeError', 'ValueError', 'AttributeError', 'AssertionError', 'NameError'}


def cstr(s: str) -> str:
    return '"' + s.replace('"', '""') + '"'


def clist(items) -> str:
    return '[' + '; '.join(items) + ']'


def import_all():
    import furax

    for m in pkgutil.walk_packages(furax.__path__, 'furax.'):
        try:
            importlib.import_module(m.name)
        except Exception as e:  # optional dependencies
            if m.name.startswith('furax.toast') or 'slurm' in m.name:
                continue
            raise Tie(f'cannot import {m.name}: {type(e).__name__}: {e}')


def furax_classes():
    """Every class defined in a furax module, in (module, line) order."""
    out = []
    for name, mod in sorted(sys.modules.items()):
        if not (name == 'furax' or name.startswith('furax.')) or mod is None:
            continue
        for _, c in inspect.getmembers(mod, inspect.isclass):
            if c.__module__ == name and c not in out:
                out.append(c)

    def key(c):
        try:
            return (c.__module__, inspect.getsourcelines(c)[1])
        except (OSError, TypeError):
            return (c.__module__, 0)

    return sorted(out, key=key)


def is_furax(c) -> bool:
    return c.__module__ == 'furax' or c.__module__.startswith('furax.')


def class_ast(c) -> ast.ClassDef:
    try:
        src = textwrap.dedent(inspect.getsource(c))
    except (OSError, TypeError) as e:
        raise Tie(f'no source for class {c.__name__}: {e}')
    node = ast.parse(src).body[0]
    if not isinstance(node, ast.ClassDef) or node.name != c.__name__:
        raise Tie(f'unexpected source for class {c.__name__}')
    return node


def method_ast(c, name) -> ast.FunctionDef:
    found = [n for n in class_ast(c).body if isinstance(n, ast.FunctionDef) and n.name == name]
    if len(found) != 1:
        raise Tie(f'{c.__name__}.{name}: expected exactly one plain definition, found {len(found)}')
    return found[0]


def owner(c, attr):
    for k in c.__mro__:
        if attr in k.__dict__:
            return k
    return None


# ------------------------------------------------------------------------------------------------
# values, expressions, statements


class Objects:
    """Opaque default values (dtype objects...): identity -> model id (1, 2, ...)."""

    def __init__(self):
        self.by_id: dict[int, object] = {}

    def ident(self, obj) -> int:
        for k, o in self.by_id.items():
            if o is obj:
                return k
        k = len(self.by_id) + 1
        self.by_id[k] = obj
        return k


def val_of(x, objs: Objects) -> str:
    if x is None:
        return 'VNone'
    if isinstance(x, bool):
        return f'(VBool {"true" if x else "false"})'
    if isinstance(x, int):
        return f'(VInt ({x}))'
    if isinstance(x, str):
        return f'(VStr {cstr(x)})'
    if isinstance(x, tuple):
        return f'(VTuple {clist([val_of(i, objs) for i in x])})'
    try:
        n = len(x)
    except TypeError:
        n = None
    return f'(VObj {objs.ident(x)} {"None" if n is None else f"(Some ({n}))"})'


def is_self_attr(n) -> str | None:
    if isinstance(n, ast.Attribute) and isinstance(n.value, ast.Name) and n.value.id == 'self':
        return n.attr
    return None


def expr(n, where, objs) -> str:
    def bad():
        return Tie(f'{where}: expression not in the accepted subset: {ast.unparse(n)!r}')

    a = is_self_attr(n)
    if a is not None:
        return f'(EAttr {cstr(a)})'
    if isinstance(n, ast.Name):
        return f'(EName {cstr(n.id)})'
    if isinstance(n, ast.Constant):
        if n.value is None or isinstance(n.value, (bool, int, str)):
            return f'(EConst {val_of(n.value, objs)})'
        raise bad()
    if isinstance(n, ast.Tuple):
        return f'(ETuple {clist([expr(e, where, objs) for e in n.elts])})'
    if isinstance(n, ast.BinOp) and isinstance(n.op, ast.Mult):
        return f'(EMul {expr(n.left, where, objs)} {expr(n.right, where, objs)})'
    if isinstance(n, ast.BinOp) and isinstance(n.op, ast.Pow):
        return f'(EPow {expr(n.left, where, objs)} {expr(n.right, where, objs)})'
    if isinstance(n, ast.Call) and isinstance(n.func, ast.Name) and n.func.id == 'len' and len(n.args) == 1 and not n.keywords:
        return f'(ELen {expr(n.args[0], where, objs)})'
    if isinstance(n, ast.Subscript) and isinstance(n.slice, ast.Slice):
        s = n.slice
        step = s.step
        minus1 = (
            isinstance(step, ast.UnaryOp) and isinstance(step.op, ast.USub) and isinstance(step.operand, ast.Constant) and step.operand.value == 1
        ) or (isinstance(step, ast.Constant) and step.value == -1)
        if s.lower is None and s.upper is None and minus1:
            return f'(ERev {expr(n.value, where, objs)})'
        raise bad()
    if isinstance(n, ast.IfExp):
        return f'(EIfExp {expr(n.test, where, objs)} {expr(n.body, where, objs)} {expr(n.orelse, where, objs)})'
    if isinstance(n, ast.Compare) and len(n.ops) == 1 and isinstance(n.comparators[0], ast.Constant) and n.comparators[0].value is None:
        inner = f'(EIsNone {expr(n.left, where, objs)})'
        if isinstance(n.ops[0], ast.Is):
            return inner
        if isinstance(n.ops[0], ast.IsNot):
            return f'(ENot {inner})'
        raise bad()
    if isinstance(n, ast.UnaryOp) and isinstance(n.op, ast.Not):
        return f'(ENot {expr(n.operand, where, objs)})'
    if isinstance(n, ast.BoolOp):
        ctor = 'EAnd' if isinstance(n.op, ast.And) else 'EOr'
        parts = [expr(v, where, objs) for v in n.values]
        out = parts[-1]
        for p in reversed(parts[:-1]):
            out = f'({ctor} {p} {out})'
        return out
    raise bad()


def super_target(c_owner):
    """The class whose __init__ `super().__init__` reaches from a method of c_owner (linear MRO)."""
    for k in c_owner.__mro__[1:]:
        if '__init__' in k.__dict__:
            return k
    return object


def init_body(c_owner, objs) -> list[str]:
    fn = method_ast(c_owner, '__init__')
    where = f'{c_owner.__name__}.__init__'
    out = []
    for i, s in enumerate(fn.body):
        if i == 0 and isinstance(s, ast.Expr) and isinstance(s.value, ast.Constant) and isinstance(s.value.value, str):
            continue  # docstring
        if isinstance(s, ast.If):
            if s.orelse or len(s.body) != 1 or not isinstance(s.body[0], ast.Raise):
                raise Tie(f'{where}: only `if c: raise K(...)` is accepted: {ast.unparse(s)[:80]!r}')
            exc = s.body[0].exc
            kind = exc.func.id if isinstance(exc, ast.Call) and isinstance(exc.func, ast.Name) else (exc.id if isinstance(exc, ast.Name) else None)
            if kind not in EKINDS:
                raise Tie(f'{where}: raise of an exception class unknown to the model: {ast.unparse(s.body[0])!r}')
            out.append(f'SRaiseIf {expr(s.test, where, objs)} {kind}')
        elif isinstance(s, ast.Assert):
            out.append(f'SAssert {expr(s.test, where, objs)}')
        elif isinstance(s, (ast.Assign, ast.AnnAssign)):
            targets = s.targets if isinstance(s, ast.Assign) else [s.target]
            if len(targets) != 1 or s.value is None:
                raise Tie(f'{where}: assignment form not accepted: {ast.unparse(s)!r}')
            t = targets[0]
            a = is_self_attr(t)
            if a is not None:
                out.append(f'SAttr {cstr(a)} {expr(s.value, where, objs)}')
            elif isinstance(t, ast.Name):
                out.append(f'SLocal {cstr(t.id)} {expr(s.value, where, objs)}')
            else:
                raise Tie(f'{where}: assignment target not accepted: {ast.unparse(s)!r}')
        elif isinstance(s, ast.Expr) and isinstance(s.value, ast.Call):
            call = s.value
            f = call.func
            is_super = (
                isinstance(f, ast.Attribute) and f.attr == '__init__' and isinstance(f.value, ast.Call)
                and isinstance(f.value.func, ast.Name) and f.value.func.id == 'super' and not f.value.args and not f.value.keywords
            )
            if not is_super:
                raise Tie(f'{where}: call statement not accepted: {ast.unparse(s)!r}')
            target = super_target(c_owner)
            if target is object:
                if call.args or call.keywords:
                    raise Tie(f'{where}: super().__init__ with arguments reaches object')
                continue
            if not is_furax(target):
                raise Tie(f'{where}: super().__init__ reaches {target.__name__} outside furax')
            if any(isinstance(a, ast.Starred) for a in call.args) or any(k.arg is None for k in call.keywords):
                raise Tie(f'{where}: star arguments in super().__init__')
            args = clist([expr(a, where, objs) for a in call.args])
            kws = clist([f'({cstr(k.arg)}, {expr(k.value, where, objs)})' for k in call.keywords])
            out.append(f'SSuper {cstr(target.__name__)} {args} {kws}')
        elif isinstance(s, ast.Pass):
            continue
        else:
            raise Tie(f'{where}: statement not in the accepted subset: {ast.unparse(s)[:80]!r}')
    return out


def params(c_owner, objs) -> list[str]:
    sig = inspect.signature(c_owner.__init__)
    out = []
    for i, p in enumerate(sig.parameters.values()):
        if i == 0:
            continue  # self
        if p.kind == p.POSITIONAL_OR_KEYWORD:
            kind = 'POK'
        elif p.kind == p.KEYWORD_ONLY:
            kind = 'KWO'
        else:
            raise Tie(f'{c_owner.__name__}.__init__: parameter kind {p.kind} ({p.name}) is not modelled')
        d = 'None' if p.default is p.empty else f'(Some {val_of(p.default, objs)})'
        out.append(f'mkP {cstr(p.name)} {kind} {d}')
    return out


def parse_flatten(c_owner):
    fn = method_ast(c_owner, 'tree_flatten')
    where = f'{c_owner.__name__}.tree_flatten'
    if [a.arg for a in fn.args.args] != ['self'] or fn.args.vararg or fn.args.kwarg or fn.args.kwonlyargs:
        raise Tie(f'{where}: unexpected signature')
    names: dict[str, ast.expr] = {}
    ret = None
    for s in fn.body:
        if isinstance(s, ast.Expr) and isinstance(s.value, ast.Constant):
            continue
        if isinstance(s, ast.Assign) and len(s.targets) == 1 and isinstance(s.targets[0], ast.Name):
            names[s.targets[0].id] = s.value
        elif isinstance(s, ast.Return) and ret is None:
            ret = s.value
        else:
            raise Tie(f'{where}: statement not accepted: {ast.unparse(s)[:80]!r}')
    if not isinstance(ret, ast.Tuple) or len(ret.elts) != 2:
        raise Tie(f'{where}: must return a pair (children, aux_data)')

    def resolve(n):
        return names[n.id] if isinstance(n, ast.Name) and n.id in names else n

    ch, aux = resolve(ret.elts[0]), resolve(ret.elts[1])
    if not isinstance(ch, (ast.Tuple, ast.List)):
        raise Tie(f'{where}: children must be a tuple/list literal: {ast.unparse(ch)!r}')
    children = []
    for e in ch.elts:
        a = is_self_attr(e)
        if a is None:
            raise Tie(f'{where}: child is not `self.<attr>`: {ast.unparse(e)!r}')
        children.append(a)
    if not isinstance(aux, ast.Dict):
        raise Tie(f'{where}: aux data must be a dict literal: {ast.unparse(aux)!r}')
    pairs = []
    for k, v in zip(aux.keys, aux.values):
        a = is_self_attr(v)
        if not (isinstance(k, ast.Constant) and isinstance(k.value, str)) or a is None:
            raise Tie(f'{where}: aux entry is not `"key": self.<attr>`: {ast.unparse(aux)!r}')
        pairs.append((k.value, a))
    if len({k for k, _ in pairs}) != len(pairs):
        raise Tie(f'{where}: duplicated aux key')
    return children, pairs


def parse_unflatten(c_owner) -> str:
    fn = method_ast(c_owner, 'tree_unflatten')
    where = f'{c_owner.__name__}.tree_unflatten'
    decos = [ast.unparse(d) for d in fn.decorator_list]
    if decos != ['classmethod']:
        raise Tie(f'{where}: expected a plain classmethod, decorators {decos}')
    argn = [a.arg for a in fn.args.args]
    if len(argn) != 3 or fn.args.vararg or fn.args.kwarg or fn.args.kwonlyargs:
        raise Tie(f'{where}: unexpected signature {argn}')
    cls_n, aux_n, ch_n = argn
    body = [s for s in fn.body if not (isinstance(s, ast.Expr) and isinstance(s.value, ast.Constant))]
    if len(body) != 1 or not isinstance(body[0], ast.Return) or not isinstance(body[0].value, ast.Call):
        raise Tie(f'{where}: body must be a single `return cls(...)`')
    call = body[0].value
    if not (isinstance(call.func, ast.Name) and call.func.id == cls_n):
        raise Tie(f'{where}: does not call cls')
    kw_ok = len(call.keywords) == 1 and call.keywords[0].arg is None and isinstance(call.keywords[0].value, ast.Name) and call.keywords[0].value.id == aux_n
    if kw_ok and not call.args:
        return 'UKwargs'
    if kw_ok and len(call.args) == 1 and isinstance(call.args[0], ast.Starred) and isinstance(call.args[0].value, ast.Name) and call.args[0].value.id == ch_n:
        return 'UChildrenKwargs'
    raise Tie(f'{where}: constructor call not in the accepted forms: {ast.unparse(call)!r}')


def decorated_registered(c) -> bool:
    return any('register_pytree_node_class' in ast.unparse(d) or 'register_pytree_with_keys_class' in ast.unparse(d) for d in class_ast(c).decorator_list)


def registry():
    try:
        from jax._src import tree_util as tu

        return tu._registry
    except Exception as e:  # the private registry moved: fail closed
        raise Tie(f'cannot read the JAX pytree registry: {e}')


def gen_pytreereg(objs: Objects):
    reg = registry()
    classes = furax_classes()
    pair = [c for c in classes if owner(c, 'tree_flatten') is not None or owner(c, 'tree_unflatten') is not None]
    table, unregistered, info = [], [], {}
    for c in pair:
        fo, uo = owner(c, 'tree_flatten'), owner(c, 'tree_unflatten')
        if fo is None or uo is None:
            raise Tie(f'{c.__name__} defines only one of tree_flatten / tree_unflatten')
        in_reg = c in reg
        deco = decorated_registered(c)
        if in_reg != deco:
            raise Tie(f'{c.__name__}: JAX registry says registered={in_reg} but the decorator in the source says {deco}')
        if not in_reg:
            unregistered.append(c.__name__)
            continue
        if not (is_furax(fo) and is_furax(uo)):
            raise Tie(f'{c.__name__}: flatten/unflatten defined outside furax')
        chain = [k for k in c.__mro__ if is_furax(k)]
        for k in chain:
            if len([b for b in k.__bases__ if is_furax(b)]) > 1:
                raise Tie(f'{k.__name__}: multiple furax bases (MRO not linear): super() resolution is not modelled')
        io = owner(c, '__init__')
        if io is None or not is_furax(io):
            raise Tie(f'{c.__name__}: no __init__ defined in furax')
        children, aux = parse_flatten(fo)
        ucall = parse_unflatten(uo)
        body = init_body(io, objs)
        table.append(
            'mkC ' + ' '.join([
                cstr(c.__name__), 'true', 'true' if inspect.isabstract(c) else 'false', cstr(io.__name__),
                clist(params(io, objs)), '\n      ' + clist(body) + '\n     ', cstr(fo.__name__), clist([cstr(a) for a in children]),
                clist([f'({cstr(k)}, {cstr(a)})' for k, a in aux]), cstr(uo.__name__), ucall,
            ])
        )
        info[c.__name__] = {'abstract': inspect.isabstract(c), 'aux': [k for k, _ in aux], 'children': children, 'params': [p.name for p in list(inspect.signature(io.__init__).parameters.values())[1:]]}
    # every class reached by a super().__init__ must be in the table
    names = set(info)
    for c in pair:
        if c.__name__ in names:
            k = owner(c, '__init__')
            while k is not None and k is not object:
                t = super_target(k)
                if t is object or not is_furax(t):
                    break
                if t.__name__ not in names:
                    raise Tie(f'{c.__name__}: constructor chain reaches {t.__name__}, which is not a registered class of the table')
                k = t
    # registered furax classes whose pair the translator did not see (e.g. registered by a call)
    for c in classes:
        if c in reg and c.__name__ not in names and (owner(c, 'tree_flatten') is not None):
            raise Tie(f'{c.__name__} is registered but was not translated')
    text = (
        '(* GENERATED by /verif/tools/translate/pytreereg.py from the imported furax package - do not edit *)\n'
        'From Coq Require Import ZArith List String.\nFrom Furax Require Import Model.PytreeReg.\n'
        'Import ListNotations.\nOpen Scope string_scope.\nOpen Scope Z_scope.\n'
        'Definition gen_table : list cdesc := [\n  ' + ';\n  '.join(table) + '\n].\n'
        f'Definition gen_unregistered : list string := {clist([cstr(n) for n in unregistered])}.\n'
    )
    return text, info, unregistered


# ------------------------------------------------------------------------------------------------
# field table of the operator classes


def all_operator_classes():
    from furax._base.core import AbstractLinearOperator

    seen, todo = [], [AbstractLinearOperator]
    while todo:
        c = todo.pop(0)
        if c in seen:
            continue
        seen.append(c)
        todo += c.__subclasses__()
    return [c for c in seen if is_furax(c)]


def annotation_text(c, field: str) -> str:
    for k in c.__mro__:
        if field in k.__dict__.get('__annotations__', {}):
            if not is_furax(k):
                raise Tie(f'{c.__name__}.{field}: annotated outside furax ({k.__name__})')
            for n in class_ast(k).body:
                if isinstance(n, ast.AnnAssign) and isinstance(n.target, ast.Name) and n.target.id == field:
                    return ast.unparse(n.annotation)
    raise Tie(f'{c.__name__}.{field}: annotation not found')


def kind_of(c, field: str, text: str, opnames: set[str]) -> str:
    import re

    t = text.replace(' ', '')
    if t == 'PyTree[jax.ShapeDtypeStruct]':
        return 'KStructure'
    if re.fullmatch(r"(Float|Inexact|Integer|Real|Shaped)\[Array,'[^']*'\]", t):
        return 'KArray'
    if re.fullmatch(r"Bool\[Array,'[^']*'\]", t):
        return 'KBoolArray'
    if t == 'Scalar':
        return 'KScalar'
    if t == 'int':
        return 'KInt'
    if t in ('int|None', 'None|int', 'Optional[int]'):
        return 'KOptInt'
    if t == 'str':
        return 'KStr'
    if t == 'bool':
        return 'KBool'
    if t in ('tuple[int]', 'tuple[int,...]'):
        return 'KIntTuple'
    if t == 'ConfigState':
        return 'KConfig'
    if t == 'CSR':
        return 'KSparse'
    alts = t.split('|')
    if all(a in opnames for a in alts):
        return 'KOperator'
    if t in ('PyTree[AbstractLinearOperator]', 'list[AbstractLinearOperator]'):
        return 'KOperators'
    if t.startswith('tuple[') and t.endswith(',...]'):
        inner = set(t[len('tuple['):-len(',...]')].split('|'))
        if inner == {'int', 'slice', "Bool[Array,'...']", "Integer[Array,'...']", 'EllipsisType'}:
            return 'KIndexTuple'
    raise Tie(f'{c.__name__}.{field}: annotation {text!r} is not a field kind known to the model')


def gen_fieldtable():
    ops = all_operator_classes()
    opnames = {c.__name__ for c in ops}
    rows, info = [], {}
    for c in ops:
        if not dataclasses.is_dataclass(c):
            raise Tie(f'{c.__name__} is not a dataclass (equinox module)')
        fields = []
        info[c.__name__] = []
        for f in dataclasses.fields(c):
            meta = dict(f.metadata)
            unknown = set(meta) - {'static'}
            if unknown:
                raise Tie(f'{c.__name__}.{f.name}: field metadata {sorted(unknown)} is not modelled (converter?)')
            static = bool(meta.get('static', False))
            kind = kind_of(c, f.name, annotation_text(c, f.name), opnames)
            fields.append(f'({cstr(f.name)}, ({"true" if static else "false"}, {kind}))')
            info[c.__name__].append((f.name, static, kind))
        rows.append(f'({cstr(c.__name__)}, {clist(fields)})')
    text = (
        '(* GENERATED by /verif/tools/translate/pytreereg.py from the imported furax package - do not edit *)\n'
        'From Coq Require Import List String.\nFrom Furax Require Import Model.PytreeReg.\n'
        'Import ListNotations.\nOpen Scope string_scope.\n'
        'Definition gen_fields : ftable := [\n  ' + ';\n  '.join(rows) + '\n].\n'
    )
    return text, info


# ------------------------------------------------------------------------------------------------
# statelessness of the operator classes (fail closed)
#
# The route-independence clause (eager = jit over a closure = filtering jit = round trip) presumes that
# an operator's action is a function of its dataclass fields only.  Hidden per-object or per-process
# state (functools.cached_property, lru_cache / cache, attributes written outside the constructor,
# mutable class attributes) makes the result depend on the ORDER of the routes: a value cached during a
# trace is a leaked tracer afterwards.  None exists in the tree the model was written against; any
# appearance breaks the tie.

def _unwrap_descriptor(v):
    if isinstance(v, (staticmethod, classmethod)):
        return v.__func__
    if isinstance(v, property):
        return v.fget
    return v


def _is_cache_object(v) -> str | None:
    import functools

    if isinstance(v, functools.cached_property):
        return 'functools.cached_property'
    f = _unwrap_descriptor(v)
    seen = 0
    while f is not None and seen < 8:  # through functools.wraps chains
        if hasattr(f, 'cache_info') or hasattr(f, 'cache_clear'):
            return 'lru_cache/cache wrapper'
        f = getattr(f, '__wrapped__', None)
        seen += 1
    tname = type(v).__name__.lower()
    if 'cache' in tname or 'memo' in tname or 'lazy' in tname:
        return f'descriptor of type {type(v).__name__}'
    return None


def hidden_state_scan(ops) -> list[str]:
    """Caches and mutable state reachable from the operator classes (class dicts along the furax part of
    each MRO, methods writing attributes outside the constructor, caches at module level of the modules
    that define operator classes)."""
    out: list[str] = []
    seen_classes, modules = [], []
    for c in ops:
        for k in c.__mro__:
            if k in seen_classes or not is_furax(k):
                continue
            seen_classes.append(k)
            if k.__module__ not in modules:
                modules.append(k.__module__)
            for name, v in vars(k).items():
                if name.startswith('__') and name.endswith('__') or name == '_abc_impl':
                    continue
                what = _is_cache_object(v)
                if what:
                    out.append(f'{k.__name__}.{name}: {what}')
                elif isinstance(v, (list, dict, set, bytearray)):
                    out.append(f'{k.__name__}.{name}: mutable class attribute ({type(v).__name__})')
            # attribute writes outside the constructor
            try:
                node = class_ast(k)
            except Tie:
                raise
            for fn in [n for n in node.body if isinstance(n, (ast.FunctionDef, ast.AsyncFunctionDef))]:
                if fn.name in ('__init__', '__post_init__', '__check_init__'):
                    continue
                for n in ast.walk(fn):
                    txt = None
                    if isinstance(n, ast.Call):
                        f = ast.unparse(n.func)
                        if f in ('object.__setattr__', 'setattr', 'object.__delattr__', 'delattr', 'vars') and n.args and ast.unparse(n.args[0]) == 'self':
                            txt = ast.unparse(n)
                    elif isinstance(n, ast.Attribute) and n.attr == '__dict__' and isinstance(n.value, ast.Name) and n.value.id == 'self':
                        txt = 'self.__dict__'
                    elif isinstance(n, (ast.Assign, ast.AugAssign, ast.AnnAssign)):
                        targets = n.targets if isinstance(n, ast.Assign) else [n.target]
                        for t in targets:
                            for sub in ast.walk(t):
                                if is_self_attr(sub) is not None and isinstance(sub.ctx, ast.Store):
                                    txt = ast.unparse(n)
                    elif isinstance(n, (ast.Global, ast.Nonlocal)):
                        txt = ast.unparse(n)
                    if txt:
                        out.append(f'{k.__name__}.{fn.name}: writes object/global state outside the constructor: {txt[:80]!r}')
    for name in modules:
        mod = sys.modules.get(name)
        for attr, v in vars(mod).items():
            if attr.startswith('__') and attr.endswith('__'):
                continue
            if getattr(v, '__module__', name) != name and not isinstance(v, (list, dict, set)):
                continue  # imported from elsewhere
            what = _is_cache_object(v) if callable(v) or not isinstance(v, (list, dict, set)) else None
            if what:
                out.append(f'module {name}: {attr}: {what}')
            elif isinstance(v, (list, dict, set)) and attr != '__all__':
                out.append(f'module {name}: {attr}: mutable module-level {type(v).__name__}')
    return out


# ------------------------------------------------------------------------------------------------
# Python-level conversions of traced fields (fail closed)
#
# Model.PytreeReg.model_uses classifies the array fields as value-level (UValue / the integer arrays of
# UIndex): "only as numbers inside array arithmetic".  Under a filtering jit those leaves are tracers,
# so int() / float() / bool() / .item() / numpy functions / `if` on them raise - while eager application
# and a jit over a closure (concrete leaves) still work.  The scan follows mv / as_matrix / __call__
# through `self.<method>` references and flags such conversions of expressions derived from the array
# fields (shape / dtype / ndim / size, isinstance and len are shape-level and allowed).

SAFE_ATTRS = {'shape', 'ndim', 'dtype', 'size', 'nbytes', 'itemsize', 'weak_type', 'aval', 'sharding'}
SAFE_CALLS = {'isinstance', 'len', 'type', 'is_leaf', 'hasattr', 'callable', 'id', 'issubclass'}
SAFE_FUNCS = {'ndim', 'shape', 'size', 'result_type', 'issubdtype', 'iscomplexobj', 'isrealobj', 'broadcast_shapes', 'eval_shape', 'isdtype'}
CONV_CALLS = {'int', 'float', 'bool', 'complex', 'range', 'hash', 'str', 'repr', 'format'}
CONV_METHODS = {'item', 'tolist', 'tobytes', '__index__', '__int__', '__float__', '__bool__', '__complex__', '__array__'}
TRACED_KINDS = {'KArray', 'KScalar', 'KBoolArray', 'KIndexTuple'}
ENTRY_POINTS = ('mv', 'as_matrix', '__call__')


def _host_module_aliases(mod) -> set[str]:
    """Names bound in the module to numpy / math / builtins-like host libraries."""
    out = set()
    for name, v in vars(mod).items():
        if inspect.ismodule(v) and v.__name__.split('.')[0] in ('numpy', 'math', 'scipy', 'operator'):
            out.add(name)
    return out


def conversion_scan(ops, field_info) -> list[str]:
    array_fields_of = {
        c.__name__: {n for n, st, k in field_info.get(c.__name__, []) if not st and k in TRACED_KINDS} for c in ops
    }
    all_array_names = set().union(*array_fields_of.values()) if array_fields_of else set()
    all_array_names |= {n.lstrip('_') for n in all_array_names}  # property aliases (diagonal -> _diagonal)
    out: list[str] = []
    done = set()
    for c in ops:
        own = array_fields_of[c.__name__] | {n.lstrip('_') for n in array_fields_of[c.__name__]}
        opfields = {n for n, st, k in field_info.get(c.__name__, []) if k in ('KOperator', 'KOperators')}
        chain = [k for k in c.__mro__ if is_furax(k)]

        def find(name):
            for k in chain:
                v = k.__dict__.get(name)
                if v is not None:
                    f = _unwrap_descriptor(v)
                    if inspect.isfunction(f):
                        return k, f
            return None

        todo, reach = [e for e in ENTRY_POINTS], []
        while todo:
            name = todo.pop()
            hit = find(name)
            if hit is None or (hit[0], name) in [(a, b) for a, b, _ in reach]:
                continue
            k, f = hit
            try:
                fn = ast.parse(textwrap.dedent(inspect.getsource(f))).body[0]
            except (OSError, TypeError, SyntaxError) as e:
                raise Tie(f'{k.__name__}.{name}: no source for the conversion scan: {e}')
            reach.append((k, name, fn))
            for n in ast.walk(fn):
                a = is_self_attr(n)
                if a is not None and a not in ('__class__',):
                    todo.append(a)
        for k, name, fn in reach:
            key = (k.__name__, name, tuple(sorted(own)), tuple(sorted(opfields)))
            if key in done:
                continue
            done.add(key)
            host = _host_module_aliases(sys.modules[k.__module__])
            tainted_names = {a.arg for a in fn.args.args + fn.args.kwonlyargs if a.arg in own}

            def tainted(n) -> bool:
                if isinstance(n, ast.Attribute):
                    if n.attr in SAFE_ATTRS:
                        return False
                    a = is_self_attr(n)
                    if a is not None:
                        return a in own
                    base = n.value
                    if is_self_attr(base) in opfields and n.attr in all_array_names:
                        return True
                    return tainted(base)
                if isinstance(n, ast.Call):
                    f = n.func
                    if isinstance(f, ast.Name) and f.id in SAFE_CALLS:
                        return False
                    if isinstance(f, ast.Attribute) and isinstance(f.value, ast.Name) and f.attr in SAFE_FUNCS and is_self_attr(f) is None:
                        return False  # jnp.ndim(a), jnp.shape(a), jnp.result_type(a, b)...
                    return any(tainted(ch) for ch in ast.iter_child_nodes(n))
                if isinstance(n, ast.Name):
                    return n.id in tainted_names
                if isinstance(n, (ast.Lambda, ast.FunctionDef)):
                    return False
                return any(tainted(ch) for ch in ast.iter_child_nodes(n))

            def names_of(t):
                return [x.id for x in ast.walk(t) if isinstance(x, ast.Name)]

            changed = True
            while changed:
                changed = False
                for n in ast.walk(fn):
                    src, tgt = None, []
                    if isinstance(n, ast.Assign):
                        src, tgt = n.value, [x for t in n.targets for x in names_of(t)]
                    elif isinstance(n, (ast.AnnAssign, ast.AugAssign)) and n.value is not None:
                        src, tgt = n.value, names_of(n.target)
                    elif isinstance(n, ast.NamedExpr):
                        src, tgt = n.value, names_of(n.target)
                    elif isinstance(n, (ast.For, ast.comprehension)):
                        src, tgt = n.iter, names_of(n.target)
                    if src is not None and tainted(src):
                        for x in tgt:
                            if x not in tainted_names:
                                tainted_names.add(x)
                                changed = True

            def test_tainted(t) -> bool:
                if isinstance(t, ast.BoolOp):
                    return any(test_tainted(v) for v in t.values)
                if isinstance(t, ast.UnaryOp) and isinstance(t.op, ast.Not):
                    return test_tainted(t.operand)
                if isinstance(t, ast.Compare) and all(isinstance(o, (ast.Is, ast.IsNot)) for o in t.ops):
                    return False
                return tainted(t)

            where = f'{c.__name__}: {k.__name__}.{name}'
            for n in ast.walk(fn):
                if isinstance(n, ast.Call):
                    f = n.func
                    args = list(n.args) + [kw.value for kw in n.keywords]
                    if isinstance(f, ast.Name) and f.id in CONV_CALLS and any(tainted(a) for a in args):
                        out.append(f'{where}: Python-level conversion of a traced field: {ast.unparse(n)[:80]!r}')
                    elif isinstance(f, ast.Attribute) and f.attr in CONV_METHODS and tainted(f.value):
                        out.append(f'{where}: Python-level conversion of a traced field: {ast.unparse(n)[:80]!r}')
                    elif isinstance(f, ast.Attribute) and isinstance(f.value, ast.Name) and f.value.id in host and any(tainted(a) for a in args):
                        out.append(f'{where}: host-library call on a traced field: {ast.unparse(n)[:80]!r}')
                elif isinstance(n, (ast.If, ast.While, ast.IfExp, ast.Assert)) and test_tainted(n.test):
                    out.append(f'{where}: Python control flow on the VALUE of a traced field: {ast.unparse(n.test)[:80]!r}')
                elif isinstance(n, ast.comprehension) and any(test_tainted(t) for t in n.ifs):
                    out.append(f'{where}: Python control flow on the VALUE of a traced field: {ast.unparse(n)[:80]!r}')
    return sorted(set(out))


# ------------------------------------------------------------------------------------------------
# equality of the static part = the jit cache key (fail closed)
#
# A jit that takes the operator as ARGUMENT keys its cache on the static part of the operator: the
# treedef (which holds the values of the static fields, compared with ==) and the non-array leaves.  Two
# operators that differ in a static field must therefore compare unequal there, or the second one silently
# runs the function compiled for the first.  Structural requirement: every dataclass field of every
# operator class, and every field of every dataclass stored in a static field (ConfigState), takes part in
# the comparison (compare=True), the stored dataclasses use the generated __eq__ (eq=True, no hand-written
# __eq__/__ne__), and no operator class of furax overrides __eq__/__ne__.
# Regenerated into Gen/FieldTable.v (gen_field_compare, gen_static_records); Props/C18.v decides
# all_compared on them, and Lemmas/PytreeRegL.v proves that then key equality implies equal field values.

STATIC_RECORD_KINDS = {'KConfig'}


def _defines_in_source(k, names) -> list[str]:
    node = class_ast(k)
    return [n.name for n in node.body if isinstance(n, (ast.FunctionDef, ast.AsyncFunctionDef)) and n.name in names] + [
        t.id for n in node.body if isinstance(n, ast.Assign) for t in n.targets if isinstance(t, ast.Name) and t.id in names
    ]


def handwritten_eq_problem(rc) -> str | None:
    """A hand-written __eq__ on a record stored in a static field is accepted only in the form
        [if not isinstance(other, <cls>): return NotImplemented]
        return <e1> and <e2> and ...
    where the conjunction reads self.<f> and other.<f> for EVERY dataclass field f (so that no field is left
    out of the cache key); anything else is refused."""
    fn = method_ast(rc, '__eq__')
    if [a.arg for a in fn.args.args] != ['self', 'other'] or fn.args.vararg or fn.args.kwarg or fn.args.kwonlyargs or fn.decorator_list:
        return 'unexpected signature'
    body = [n for n in fn.body if not (isinstance(n, ast.Expr) and isinstance(n.value, ast.Constant))]
    if body and isinstance(body[0], ast.If):
        g = body[0]
        ok = (
            not g.orelse and len(g.body) == 1 and isinstance(g.body[0], ast.Return) and ast.unparse(g.body[0].value) == 'NotImplemented'
            and ast.unparse(g.test) == f'not isinstance(other, {rc.__name__})'
        )
        if not ok:
            return f'guard not in the accepted form: {ast.unparse(g)[:80]!r}'
        body = body[1:]
    if len(body) != 1 or not isinstance(body[0], ast.Return) or not isinstance(body[0].value, ast.BoolOp) or not isinstance(body[0].value.op, ast.And):
        return 'body is not a single `return a and b and ...`'
    conj = body[0].value
    for v in conj.values:
        for n in ast.walk(v):
            if isinstance(n, (ast.BoolOp, ast.IfExp, ast.Lambda)) or (isinstance(n, ast.UnaryOp) and isinstance(n.op, ast.Not)):
                return f'conjunct with nested logic: {ast.unparse(v)[:80]!r}'
    missing = [g.name for g in dataclasses.fields(rc) if g.name not in handwritten_eq_fields(rc)]
    if missing:
        return f'fields {missing} are not compared (no conjunct reads both self.<field> and other.<field>)'
    return None


def handwritten_eq_fields(rc) -> set[str]:
    """The dataclass fields that some conjunct of the hand-written `return a and b and ...` reads on both sides."""
    out = set()
    try:
        ret = [n for n in method_ast(rc, '__eq__').body if isinstance(n, ast.Return) and isinstance(n.value, ast.BoolOp)]
    except Tie:
        return out
    for r in ret[-1:]:
        for v in r.value.values:
            for g in dataclasses.fields(rc):
                on_self = any(is_self_attr(n) == g.name for n in ast.walk(v))
                on_other = any(isinstance(n, ast.Attribute) and isinstance(n.value, ast.Name) and n.value.id == 'other' and n.attr == g.name for n in ast.walk(v))
                if on_self and on_other:
                    out.add(g.name)
    return out


def static_record_class(c, field: str):
    """The class named by the annotation of a static field that stores a dataclass (KConfig -> ConfigState)."""
    text = annotation_text(c, field).replace(' ', '')
    for k in c.__mro__:
        if field in k.__dict__.get('__annotations__', {}):
            obj = vars(sys.modules[k.__module__]).get(text)
            if not inspect.isclass(obj) or not dataclasses.is_dataclass(obj):
                raise Tie(f'{c.__name__}.{field}: annotation {text!r} does not name a dataclass of the defining module')
            return obj
    raise Tie(f'{c.__name__}.{field}: annotation not found')


def static_equality_scan(ops, field_info):
    """-> (problems, compare flags per operator class, compare flags per dataclass stored in a static field)."""
    problems: list[str] = []
    per_class: dict[str, list[tuple[str, bool]]] = {}
    records: dict[str, list[tuple[str, bool]]] = {}
    seen = []
    for c in ops:
        for k in c.__mro__:
            if k in seen or not is_furax(k):
                continue
            seen.append(k)
            for name in _defines_in_source(k, {'__eq__', '__ne__'}):
                problems.append(f'{k.__name__}.{name}: hand-written comparison on an operator class (the static part is the jit cache key)')
        rows = []
        kinds = {n: (st, kd) for n, st, kd in field_info.get(c.__name__, [])}
        for f in dataclasses.fields(c):
            cmp = f.compare is True
            rows.append((f.name, cmp))
            if not cmp:
                problems.append(f'{c.__name__}.{f.name}: dataclass field declared compare={f.compare!r}')
            st, kd = kinds.get(f.name, (False, None))
            if st and kd in STATIC_RECORD_KINDS:
                rc = static_record_class(c, f.name)
                if rc.__name__ in records:
                    continue
                if not is_furax(rc):
                    raise Tie(f'{c.__name__}.{f.name}: dataclass {rc.__name__} stored in a static field is defined outside furax')
                params = getattr(rc, '__dataclass_params__', None)
                if params is None or not params.eq:
                    problems.append(f'{rc.__name__}: dataclass(eq=False) stored in the static field {c.__name__}.{f.name} (compared by identity)')
                for k in rc.__mro__:
                    if is_furax(k):
                        for name in _defines_in_source(k, {'__eq__', '__ne__'}):
                            why = 'not accepted' if name != '__eq__' or k is not rc else handwritten_eq_problem(rc)
                            if why:
                                problems.append(f'{k.__name__}.{name}: hand-written comparison on a dataclass stored in the static field {c.__name__}.{f.name}: {why}')
                rrows = []
                handwritten = '__eq__' in _defines_in_source(rc, {'__eq__'})
                in_eq = handwritten_eq_fields(rc) if handwritten else None
                for g in dataclasses.fields(rc):
                    gc = g.compare is True
                    # the flag regenerated into Gen/FieldTable.v: the field takes part in the equality IN USE
                    rrows.append((g.name, gc and (in_eq is None or g.name in in_eq)))
                    if not gc:
                        problems.append(
                            f'{rc.__name__}.{g.name}: declared compare={g.compare!r} but {rc.__name__} is stored in the static field '
                            f'{c.__name__}.{f.name}: two operators differing only there share one jit cache entry'
                        )
                records[rc.__name__] = rrows
        per_class[c.__name__] = rows
    return problems, per_class, records


def gen_equality(ops, field_info) -> tuple[str, list[str], dict]:
    problems, per_class, records = static_equality_scan(ops, field_info)

    def table(d):
        return clist([f'({cstr(c)}, {clist([f"({cstr(n)}, {str(b).lower()})" for n, b in rows])})' for c, rows in d.items()])

    text = (
        f'Definition gen_field_compare : ctable :=\n  {table(per_class)}.\n'
        f'Definition gen_static_records : ctable :=\n  {table(records)}.\n'
    )
    return text, problems, records


# ------------------------------------------------------------------------------------------------
# reads of AMBIENT state (fail closed)
#
# An operator captures the solver configuration when it is built (InverseOperator.__init__ reads
# Config.instance()).  Any later read of the active configuration (a context variable) - in mv or in any
# other method - makes the result depend on what is active when the method RUNS: at call time for eager
# application, at TRACE time (then frozen in the compiled function) under jit.  The scan flags every
# reference, outside constructors, from the methods of the operator classes and from the module-level
# functions of their modules, to the Config class, a contextvars.ContextVar, the config / contextvars / os
# modules, or os.environ-like objects.

AMBIENT_MODULES = {'contextvars', 'os', 'furax._base.config'}


def _ambient_object(v) -> str | None:
    import contextvars
    import os

    if isinstance(v, contextvars.ContextVar):
        return f'context variable {v.name!r}'
    if inspect.ismodule(v) and v.__name__ in AMBIENT_MODULES:
        return f'module {v.__name__}'
    if inspect.isclass(v) and is_furax(v) and v.__module__ == 'furax._base.config' and not dataclasses.is_dataclass(v):
        return f'class {v.__name__} (active configuration)'
    if v is os.environ or v is getattr(os, 'getenv', None):
        return 'process environment'
    if inspect.isfunction(v) and getattr(v, '__module__', '') == 'contextvars':
        return f'contextvars.{v.__name__}'
    return None


def ambient_read_scan(ops) -> list[str]:
    out: list[str] = []
    seen_classes, modules = [], []
    ctor = ('__init__', '__post_init__', '__check_init__')

    def scan(fn, glob, where):
        for n in ast.walk(fn):
            if isinstance(n, ast.Name) and isinstance(n.ctx, ast.Load) and n.id in glob:
                what = _ambient_object(glob[n.id])
                if what:
                    out.append(f'{where}: reads ambient state outside the constructor: {n.id} ({what})')

    for c in ops:
        for k in c.__mro__:
            if k in seen_classes or not is_furax(k):
                continue
            seen_classes.append(k)
            if k.__module__ not in modules:
                modules.append(k.__module__)
            glob = vars(sys.modules[k.__module__])
            for fn in [n for n in class_ast(k).body if isinstance(n, (ast.FunctionDef, ast.AsyncFunctionDef))]:
                if fn.name in ctor:
                    continue
                scan(fn, glob, f'{k.__name__}.{fn.name}')
    for name in modules:
        mod = sys.modules[name]
        try:
            tree = ast.parse(inspect.getsource(mod))
        except (OSError, TypeError, SyntaxError) as e:
            raise Tie(f'module {name}: no source for the ambient-state scan: {e}')
        for fn in [n for n in tree.body if isinstance(n, (ast.FunctionDef, ast.AsyncFunctionDef))]:
            scan(fn, vars(mod), f'module {name}: {fn.name}')
    return sorted(set(out))


def ambient_rebuild_scan(ops) -> list[str]:
    """Operator classes whose CONSTRUCTOR reads ambient state capture it at creation (InverseOperator.config).  Any
    method resolved on such a class (or a subclass) that constructs a new instance of it - `type(self)(...)`,
    `self.__class__(...)`, `Cls(...)` with Cls a capturing class or a subclass of one - silently replaces the captured
    state by the one active when that method runs (reduce() at trace time, .T, ...).  The functions are taken as the
    class resolves them: the first definition along the furax part of the MRO."""
    ctor = ('__init__', '__post_init__', '__check_init__')
    capturing: dict = {}
    for c in ops:
        glob = vars(sys.modules[c.__module__])
        for fn in [n for n in class_ast(c).body if isinstance(n, (ast.FunctionDef, ast.AsyncFunctionDef)) and n.name in ctor]:
            reads = sorted({n.id for n in ast.walk(fn) if isinstance(n, ast.Name) and isinstance(n.ctx, ast.Load) and n.id in glob and _ambient_object(glob[n.id])})
            if reads:
                capturing[c] = reads
    out: list[str] = []
    for c in ops:
        caps = [k for k in c.__mro__ if k in capturing]
        if not caps:
            continue
        resolved: set[str] = set()
        for k in c.__mro__:
            if not is_furax(k):
                continue
            glob = vars(sys.modules[k.__module__])
            for fn in [n for n in class_ast(k).body if isinstance(n, (ast.FunctionDef, ast.AsyncFunctionDef))]:
                if fn.name in ctor or fn.name in resolved:
                    continue
                resolved.add(fn.name)
                for n in ast.walk(fn):
                    if not isinstance(n, ast.Call):
                        continue
                    f, what = n.func, None
                    if isinstance(f, ast.Call) and isinstance(f.func, ast.Name) and f.func.id == 'type' and len(f.args) == 1 and isinstance(f.args[0], ast.Name) and f.args[0].id == 'self':
                        what = 'type(self)(...)'
                    elif isinstance(f, ast.Attribute) and f.attr == '__class__' and isinstance(f.value, ast.Name) and f.value.id == 'self':
                        what = 'self.__class__(...)'
                    elif isinstance(f, ast.Name) and inspect.isclass(glob.get(f.id)) and any(issubclass(glob[f.id], cap) for cap in capturing):
                        what = f'{f.id}(...)'
                    elif isinstance(f, ast.Attribute) and f.attr == 'replace' and isinstance(f.value, ast.Name) and f.value.id == 'dataclasses' and n.args and isinstance(n.args[0], ast.Name) and n.args[0].id == 'self':
                        what = 'dataclasses.replace(self, ...)'
                    if what:
                        out.append(
                            f'{c.__name__}.{fn.name} (defined in {k.__name__}) constructs {what}: the constructor of '
                            f'{caps[0].__name__} reads ambient state {capturing[caps[0]]}, so the new object holds the configuration active when '
                            f'{fn.name}() runs instead of the one captured at creation'
                        )
    return sorted(set(out))


def generate(gen_dir: Path) -> dict:
    import_all()
    objs = Objects()
    t1, reg_info, unregistered = gen_pytreereg(objs)
    t2, field_info = gen_fieldtable()
    ops = all_operator_classes()
    t3, eq_problems, records = gen_equality(ops, field_info)
    t2 = t2 + t3
    gen_dir.mkdir(parents=True, exist_ok=True)
    (gen_dir / 'PytreeReg.v').write_text(t1)
    (gen_dir / 'FieldTable.v').write_text(t2)
    return {
        'registered': reg_info, 'unregistered': unregistered, 'fields': field_info, 'objects': objs.by_id, 'text': t1 + t2,
        'hidden_state': hidden_state_scan(ops), 'conversions': conversion_scan(ops, field_info),
        'static_equality': eq_problems, 'static_records': {k: [n for n, _ in v] for k, v in records.items()},
        'ambient_reads': ambient_read_scan(ops), 'ambient_rebuilds': ambient_rebuild_scan(ops),
    }


if __name__ == '__main__':
    out = generate(Path(sys.argv[1]) if len(sys.argv) > 1 else Path('/tmp/C18/gen'))
    print({k: v for k, v in out.items() if k not in ('text', 'fields')})
    print(out['text'])
