"""T-tie translator: regenerates Gen/Tables.v from the imported furax package.

Emits (fail closed on anything it does not recognise):
  gen_rules    : the binary-rule registry, in registration order, with the operand-class guards
  gen_order    : the same registry as model rule identifiers
  gen_subclass : the issubclass relation among the operator classes known to the model
  gen_methods  : for every concrete operator class, which definition of __matmul__, transpose,
                 inverse, reduce, out_structure, as_matrix it resolves to (MRO + decorators)
  gen_tags     : lineax tag predicates per class
  gen_generic_check : the BODY of AbstractBinaryRule.check (the generic class / identity guards every binary rule
                 goes through) translated statement by statement into a Gallina boolean function; Props/Tables.v
                 proves it equal to the model's guard_ok for all guards and operands
  gen_check_owners  : which class defines the `check` each registered rule resolves to
  gen_inverse_check_src : normalised source of the only overriding check (InverseBinaryRule.check)
"""
from __future__ import annotations

import ast
import importlib
import inspect
import textwrap
import pkgutil
import sys
from pathlib import Path

sys.path.insert(0, str(Path(__file__).resolve().parents[2] / 'harness'))
from lib import Tie  # noqa: E402

# model class constructor -> python class name
CLS = {
    'CAbstractLinearOperator': 'AbstractLinearOperator', 'CAddition': 'AdditionOperator',
    'CComposition': 'CompositionOperator', 'CLazyDual': '_AbstractLazyDualOperator',
    'CTranspose': 'TransposeOperator', 'CAbstractLazyInverse': 'AbstractLazyInverseOperator',
    'CInverse': 'InverseOperator', 'CAbstractLazyInverseOrthogonal': 'AbstractLazyInverseOrthogonalOperator',
    'CIdentity': 'IdentityOperator', 'CHomothety': 'HomothetyOperator', 'CAbstractBlock': 'AbstractBlockOperator',
    'CBlockRow': 'BlockRowOperator', 'CBlockDiagonal': 'BlockDiagonalOperator', 'CBlockColumn': 'BlockColumnOperator',
    'CBroadcastDiagonal': 'BroadcastDiagonalOperator', 'CDiagonal': 'DiagonalOperator',
    'CDiagonalInverse': 'DiagonalInverseOperator', 'CDense': 'DenseBlockDiagonalOperator', 'CIndex': 'IndexOperator',
    'CPack': 'PackOperator', 'CMoveAxis': 'MoveAxisOperator', 'CAbstractRavelOrReshape': 'AbstractRavelOrReshapeOperator',
    'CRavel': 'RavelOperator', 'CReshape': 'ReshapeOperator', 'CReshapeTranspose': 'ReshapeTransposeOperator',
    'CQURotation': 'QURotationOperator', 'CQURotationTranspose': 'QURotationTransposeOperator', 'CHWP': 'HWPOperator',
    'CLinearPolarizer': 'LinearPolarizerOperator', 'CToeplitz': 'SymmetricBandToeplitzOperator',
    'CObsMatrix': 'ToastObservationMatrixOperator', 'CObsMatrixTranspose': 'ToastObservationMatrixTransposeOperator',
}
RULES = {
    'InverseBinaryRule': 'RInverse', 'MoveAxisInverseRule': 'RMoveAxis', 'ReshapeInverseRule': 'RReshape',
    'PackUnpackRule': 'RPackUnpack', 'QURotationRule': 'RQURot', 'QURotationHWPRule': 'RQURotHWP',
    'LinearPolarizerHWPRule': 'RPolHWP', 'BlockRowBlockDiagonalRule': 'RRowDiag',
    'BlockDiagonalBlockColumnRule': 'RDiagCol', 'BlockDiagonalBlockDiagonalRule': 'RDiagDiag',
    'BlockRowBlockColumnRule': 'RRowCol', 'IndexTransposeRule': 'RIndexT', 'TransposeIndexRule': 'RTIndex',
}
METHODS = ['__matmul__', '__rmatmul__', '__add__', '__radd__', '__neg__', 'transpose', 'inverse', 'reduce', 'out_structure', 'in_structure', 'as_matrix']


def import_all():
    import furax

    mods = []
    for m in pkgutil.walk_packages(furax.__path__, 'furax.'):
        try:
            mods.append(importlib.import_module(m.name))
        except Exception as e:  # optional dependencies (toast data etc.)
            if m.name.startswith('furax.toast') or 'slurm' in m.name:
                continue
            raise Tie(f'cannot import {m.name}: {type(e).__name__}: {e}')
    return mods


def all_operator_classes():
    from furax._base.core import AbstractLinearOperator

    seen, todo = [], [AbstractLinearOperator]
    while todo:
        c = todo.pop()
        if c in seen:
            continue
        seen.append(c)
        todo += c.__subclasses__()
    return [c for c in seen if c.__module__.startswith('furax')]


def owner(cls, attr) -> str:
    for k in cls.__mro__:
        if attr in k.__dict__:
            f = k.__dict__[attr]
            f = getattr(f, '__func__', f)
            if isinstance(f, property):
                f = f.fget
            q = getattr(f, '__qualname__', type(f).__name__)
            if '<lambda>' in q:
                # decorators assign lambdas / other classes' functions: name them by what they do
                try:
                    src = inspect.getsource(f).strip()
                except Exception:
                    src = q
                q = 'lambda:' + ' '.join(src.split())
            return f'{k.__name__}:{q}' if k.__module__.startswith('furax') else f'<ext>:{q}'
    return '<none>'


def cstr(s: str) -> str:
    return '"' + s.replace('"', '""') + '"%string'


def clist(items) -> str:
    return '[' + '; '.join(items) + ']'


def cls_tuple(x, names) -> str:
    if x is None:
        return 'None'
    if isinstance(x, tuple) and len(x) < 2:
        raise Tie('rule guard is a tuple of fewer than two classes (indistinguishable from the bare class in the table)')
    xs = x if isinstance(x, tuple) else (x,)
    out = []
    for c in xs:
        if c.__name__ not in names:
            raise Tie(f'rule guard names class {c.__name__} unknown to the model')
        out.append(names[c.__name__])
    return f'(Some {clist(out)})'


# ---------------------------------------------------------------------------------------------
# AbstractBinaryRule.check -> Gallina
#
# Accepted subset (anything else raises Tie):
#   statements  if/elif/else, `raise NoReduction`, bare `return`, `pass`, a leading docstring
#   conditions  and / or / not,
#               self.<attr> is [not] None, self.<attr> is [not] <operator class>,
#               isinstance(left|right, self.<attr>)      (only where self.<attr> is known not to be None),
#               left.operator is [not] right, right.operator is [not] left
#                                                        (only and-guarded by self.<side>_operator_class is <wrapper class>)
# with <attr> one of operator_class / left_operator_class / right_operator_class.
# The result is a bool: true = check returns (the rule may be applied), false = NoReduction.
GUARD_ATTRS = {'operator_class': 'g_any', 'left_operator_class': 'g_left', 'right_operator_class': 'g_right'}


class _CheckTranslator:
    def __init__(self, fn, module, names):
        self.module = module
        self.names = names  # python class name -> model cls constructor
        args = fn.args
        if ([a.arg for a in args.args] != ['self', 'left', 'right'] or args.vararg or args.kwarg or args.kwonlyargs
                or args.posonlyargs or args.defaults):
            raise Tie(f'signature of {fn.name} is not (self, left, right)')
        if fn.decorator_list:
            raise Tie(f'{fn.name} is decorated')
        body = list(fn.body)
        if body and isinstance(body[0], ast.Expr) and isinstance(body[0].value, ast.Constant) and isinstance(body[0].value.value, str):
            body = body[1:]
        self.body = body

    def refuse(self, node, why):
        raise Tie(f'AbstractBinaryRule.check: cannot translate `{ast.unparse(node)}` ({why})')

    # -- statements ---------------------------------------------------------------------------
    def stmts(self, body, rest, known):
        if not body:
            return rest
        s, tail = body[0], body[1:]
        if isinstance(s, ast.If):
            after = self.stmts(tail, rest, known)
            test = self.expr(s.test, known, frozenset())
            then = self.stmts(s.body, after, known | self.not_none_facts(s.test))
            other = self.stmts(s.orelse, after, known)
            return f'(if {test} then {then} else {other})'
        if isinstance(s, ast.Raise):
            exc = s.exc.func if isinstance(s.exc, ast.Call) and not s.exc.args and not s.exc.keywords else s.exc
            if s.cause is not None or not isinstance(exc, ast.Name) or getattr(self.module, exc.id, None) is not self.module.NoReduction:
                self.refuse(s, 'only `raise NoReduction` is understood')
            if tail:
                self.refuse(tail[0], 'statement after a raise')
            return 'false'
        if isinstance(s, ast.Return) and (s.value is None or (isinstance(s.value, ast.Constant) and s.value.value is None)):
            if tail:
                self.refuse(tail[0], 'statement after a return')
            return 'true'
        if isinstance(s, ast.Pass):
            return self.stmts(tail, rest, known)
        self.refuse(s, 'statement kind')

    def not_none_facts(self, test):
        """Attributes that are certainly not None when `test` is true."""
        if isinstance(test, ast.BoolOp) and isinstance(test.op, ast.And):
            out = frozenset()
            for v in test.values:
                out |= self.not_none_facts(v)
            return out
        if isinstance(test, ast.Compare) and len(test.ops) == 1:
            a = self.self_attr(test.left)
            c = test.comparators[0]
            if a and isinstance(test.ops[0], ast.IsNot) and isinstance(c, ast.Constant) and c.value is None:
                return frozenset([a])
            if a and isinstance(test.ops[0], ast.Is) and isinstance(c, ast.Name):
                return frozenset([a])  # is <some class>
        return frozenset()

    def wrapper_facts(self, test):
        """Sides (left/right) whose class attribute is known to be exactly a lazy wrapper class when `test` is true."""
        from furax._base.core import _AbstractLazyDualOperator

        if isinstance(test, ast.Compare) and len(test.ops) == 1 and isinstance(test.ops[0], ast.Is):
            a = self.self_attr(test.left)
            c = test.comparators[0]
            if a in ('left_operator_class', 'right_operator_class') and isinstance(c, ast.Name):
                k = getattr(self.module, c.id, None)
                if isinstance(k, type) and issubclass(k, _AbstractLazyDualOperator):
                    return frozenset([a.split('_')[0]])
        return frozenset()

    # -- expressions --------------------------------------------------------------------------
    @staticmethod
    def self_attr(node):
        if isinstance(node, ast.Attribute) and isinstance(node.value, ast.Name) and node.value.id == 'self' and node.attr in GUARD_ATTRS:
            return node.attr
        return None

    def expr(self, e, known, wrappers):
        if isinstance(e, ast.BoolOp):
            f = 'andb' if isinstance(e.op, ast.And) else 'orb'
            terms = []
            for v in e.values:
                terms.append(self.expr(v, known, wrappers))
                if isinstance(e.op, ast.And):  # facts established by the operands to the left (short circuit)
                    known = known | self.not_none_facts(v)
                    wrappers = wrappers | self.wrapper_facts(v)
            out = terms[-1]
            for t in reversed(terms[:-1]):
                out = f'({f} {t} {out})'
            return out
        if isinstance(e, ast.UnaryOp) and isinstance(e.op, ast.Not):
            return f'(negb {self.expr(e.operand, known, wrappers)})'
        if isinstance(e, ast.Compare) and len(e.ops) == 1 and isinstance(e.ops[0], (ast.Is, ast.IsNot)):
            neg = isinstance(e.ops[0], ast.IsNot)
            lhs, rhs = e.left, e.comparators[0]
            a = self.self_attr(lhs)
            t = None
            if a and isinstance(rhs, ast.Constant) and rhs.value is None:
                t = f'(negb (attr_set ({GUARD_ATTRS[a]} g)))'
            elif a and isinstance(rhs, ast.Name):
                k = getattr(self.module, rhs.id, None)
                if not isinstance(k, type) or k.__name__ not in self.names:
                    self.refuse(e, 'comparison with something that is not a modelled operator class')
                t = f'(attr_is ({GUARD_ATTRS[a]} g) {self.names[k.__name__]})'
            elif (isinstance(lhs, ast.Attribute) and lhs.attr == 'operator' and isinstance(lhs.value, ast.Name)
                  and isinstance(rhs, ast.Name) and {lhs.value.id, rhs.id} == {'left', 'right'}):
                if lhs.value.id not in wrappers:
                    self.refuse(e, f'`.operator` of an operand that is not known to be a lazy wrapper here')
                t = f'(operator_is keqb {lhs.value.id} {rhs.id})'
            if t is None:
                self.refuse(e, 'comparison')
            return f'(negb {t})' if neg else t
        if (isinstance(e, ast.Call) and isinstance(e.func, ast.Name) and e.func.id == 'isinstance' and len(e.args) == 2
                and not e.keywords and isinstance(e.args[0], ast.Name) and e.args[0].id in ('left', 'right')):
            if 'isinstance' in vars(self.module):
                self.refuse(e, 'isinstance is shadowed in the module')
            a = self.self_attr(e.args[1])
            if a is None:
                self.refuse(e, 'second argument of isinstance')
            if a not in known:
                self.refuse(e, f'self.{a} may be None here')
            return f'(py_isinstance {e.args[0].id} ({GUARD_ATTRS[a]} g))'
        self.refuse(e, 'expression kind')


def _function_ast(f):
    src = textwrap.dedent(inspect.getsource(f))
    mod = ast.parse(src)
    if len(mod.body) != 1 or not isinstance(mod.body[0], ast.FunctionDef):
        raise Tie(f'source of {f.__qualname__} is not a single function definition')
    return mod.body[0]


def translate_generic_check(names) -> str:
    from furax._base import rules as R

    f = R.AbstractBinaryRule.__dict__.get('check')
    if not inspect.isfunction(f):
        raise Tie('AbstractBinaryRule.check is not a plain function')
    tr = _CheckTranslator(_function_ast(f), R, names)
    return tr.stmts(tr.body, 'true', frozenset())


def normalised_source(f) -> str:
    """Source of a function without comments, docstring and layout (ast.dump of its statements)."""
    fn = _function_ast(f)
    body = list(fn.body)
    if body and isinstance(body[0], ast.Expr) and isinstance(body[0].value, ast.Constant) and isinstance(body[0].value.value, str):
        body = body[1:]
    sig = ', '.join(a.arg for a in fn.args.args)
    return f'def {fn.name}({sig}): ' + '; '.join(ast.dump(s, annotate_fields=False) for s in body)


def check_owners(registry) -> list:
    """(rule, class defining the check() it resolves to); instance-level overrides are refused."""
    out = []
    for r in registry:
        if 'check' in vars(r):
            raise Tie(f'{type(r).__name__} instance carries its own check attribute')
        own = next((k for k in type(r).__mro__ if 'check' in k.__dict__), None)
        if own is None or not inspect.isfunction(own.__dict__['check']):
            raise Tie(f'check of {type(r).__name__} is not a plain method')
        out.append((type(r).__name__, own.__name__))
    return out


def generate(gen_dir: Path) -> dict:
    import_all()
    import lineax as lx
    from furax._base.rules import BINARY_RULE_REGISTRY

    names = {v: k for k, v in CLS.items()}
    classes = all_operator_classes()
    pyclasses = {c.__name__: c for c in classes}
    unknown = sorted(n for n in pyclasses if n not in names)
    missing = sorted(n for n in names if n not in pyclasses)
    # every other operator class of the package must be a plain leaf class (direct subclass of
    # AbstractLinearOperator without own dunders): the model's CAtom.  Anything else is refused.
    for n in unknown:
        raise Tie(f'operator class {n} is not known to the model (Model/Op.v cls)')
    optional = {'ToastObservationMatrixOperator', 'ToastObservationMatrixTransposeOperator'}
    for n in missing:
        if n not in optional:
            raise Tie(f'model class {n} does not exist in the package any more')

    rules, order = [], []
    for r in BINARY_RULE_REGISTRY:
        rn = type(r).__name__
        if rn not in RULES:
            raise Tie(f'registered binary rule {rn} is not known to the model (Model/Algebra.v rule_id)')
        g = f'mkGuard {cls_tuple(r.operator_class, names)} {cls_tuple(r.left_operator_class, names)} {cls_tuple(r.right_operator_class, names)}'
        rules.append(f'({RULES[rn]}, {g})')
        order.append(RULES[rn])

    generic_check = translate_generic_check(names)
    owners = check_owners(BINARY_RULE_REGISTRY)
    overriding = sorted({o for _, o in owners if o != 'AbstractBinaryRule'})
    if overriding != ['InverseBinaryRule']:
        raise Tie(f'rules overriding check(): {overriding}; the model knows InverseBinaryRule only')
    from furax._base.rules import InverseBinaryRule
    inverse_src = normalised_source(InverseBinaryRule.__dict__['check'])

    present = [k for k, v in CLS.items() if v in pyclasses]
    sub = []
    for c in present:
        sups = [d for d in present if issubclass(pyclasses[CLS[c]], pyclasses[CLS[d]])]
        sub.append(f'({c}, {clist(sups)})')

    methods = []
    for c in present:
        k = pyclasses[CLS[c]]
        methods.append(f'({c}, {clist([cstr(owner(k, m)) for m in METHODS])})')

    tags = []
    tagfs = ['is_diagonal', 'is_lower_triangular', 'is_upper_triangular', 'is_tridiagonal', 'is_symmetric',
             'is_positive_semidefinite', 'is_negative_semidefinite']
    for c in present:
        k = pyclasses[CLS[c]]
        vals = []
        if c == 'CAbstractLinearOperator':
            continue  # the abstract root has no registration of its own (lineax's default raises)
        for t in tagfs:
            f = getattr(lx, t)
            impl = f.dispatch(k)
            try:
                src = ' '.join(inspect.getsource(impl).split())
            except Exception:
                src = getattr(impl, '__qualname__', '?')
            if 'lambda _: True' in src:
                vals.append('true')
            elif 'lambda _: False' in src:
                vals.append('false')
            else:
                raise Tie(f'tag {t} of {k.__name__} dispatches to something the translator does not recognise: {src[:80]}')
        tags.append(f'({c}, {clist(vals)})')

    text = f'''(* GENERATED by /verif/tools/translate/tables.py from the imported furax package - do not edit *)
From Coq Require Import List String.
From Furax Require Import Model.Op Model.Algebra Lemmas.TablesL.
Import ListNotations.
Definition gen_rules : list (rule_id * guard) := {clist(rules)}.
Definition gen_order : list rule_id := {clist(order)}.
Definition gen_classes : list cls := {clist(present)}.
Definition gen_subclass : list (cls * list cls) := {clist(sub)}.
Definition gen_method_names : list string := {clist([cstr(m) for m in METHODS])}.
Definition gen_methods : list (cls * list string) := {clist(methods)}.
Definition gen_tag_names : list string := {clist([cstr(t) for t in tagfs])}.
Definition gen_tags : list (cls * list bool) := {clist(tags)}.
(* AbstractBinaryRule.check, statement by statement: true = returns, false = raises NoReduction *)
Definition gen_generic_check (K : Type) (keqb : K -> K -> bool) (g : guard) (left right : op K) : bool :=
  {generic_check}.
Definition gen_check_owners : list (rule_id * string) := {clist([f'({RULES[r]}, {cstr(o)})' for r, o in owners])}.
Definition gen_inverse_check_src : string := {cstr(inverse_src)}.
'''
    gen_dir.mkdir(parents=True, exist_ok=True)
    (gen_dir / 'Tables.v').write_text(text)
    return {'rules': order, 'generic_check': generic_check, 'classes': len(present), 'optional_missing': [n for n in missing if n in optional]}


if __name__ == '__main__':
    print(generate(Path(sys.argv[1]) if len(sys.argv) > 1 else Path('/tmp/gen')))
