"""T-tie translator: regenerates Gen/Tables.v from the imported furax package.

Emits (fail closed on anything it does not recognise):
  gen_rules    : the binary-rule registry, in registration order, with the operand-class guards
  gen_order    : the same registry as model rule identifiers
  gen_subclass : the issubclass relation among the operator classes known to the model
  gen_methods  : for every concrete operator class, which definition of __matmul__, transpose,
                 inverse, reduce, out_structure, as_matrix it resolves to (MRO + decorators)
  gen_tags     : lineax tag predicates per class
"""
from __future__ import annotations

import importlib
import inspect
import pkgutil
import sys
from pathlib import Path

sys.path.insert(0, str(Path(__file__).resolve().parents[2] / 'harness'))
from lib import Tie  # noqa: E402

# model class constructor -> python class name
CLS = {
    'CAbstractLinearOperator': 'AbstractLinearOperator', 'CAddition': 'AdditionOperator',
    'CComposition': 'CompositionOperator', 'CLazyDual': '_AbstractLazyDualOperator',
    'CTranspose': 'TransposeOperator', 'CAbstractLazyInverse': 'AbstractLazyInverseOperator',
    'CInverse': 'InverseOperator', 'CAbstractLazyInverseOrthogonal': 'AbstractLazyInverseOrthogonalOperator',
    'CIdentity': 'IdentityOperator', 'CHomothety': 'HomothetyOperator', 'CAbstractBlock': 'AbstractBlockOperator',
    'CBlockRow': 'BlockRowOperator', 'CBlockDiagonal': 'BlockDiagonalOperator', 'CBlockColumn': 'BlockColumnOperator',
    'CBroadcastDiagonal': 'BroadcastDiagonalOperator', 'CDiagonal': 'DiagonalOperator',
    'CDiagonalInverse': 'DiagonalInverseOperator', 'CDense': 'DenseBlockDiagonalOperator', 'CIndex': 'IndexOperator',
    'CPack': 'PackOperator', 'CMoveAxis': 'MoveAxisOperator', 'CAbstractRavelOrReshape': 'AbstractRavelOrReshapeOperator',
    'CRavel': 'RavelOperator', 'CReshape': 'ReshapeOperator', 'CReshapeTranspose': 'ReshapeTransposeOperator',
    'CQURotation': 'QURotationOperator', 'CQURotationTranspose': 'QURotationTransposeOperator', 'CHWP': 'HWPOperator',
    'CLinearPolarizer': 'LinearPolarizerOperator', 'CToeplitz': 'SymmetricBandToeplitzOperator',
    'CObsMatrix': 'ToastObservationMatrixOperator', 'CObsMatrixTranspose': 'ToastObservationMatrixTransposeOperator',
}
RULES = {
    'InverseBinaryRule': 'RInverse', 'MoveAxisInverseRule': 'RMoveAxis', 'ReshapeInverseRule': 'RReshape',
    'PackUnpackRule': 'RPackUnpack', 'QURotationRule': 'RQURot', 'QURotationHWPRule': 'RQURotHWP',
    'LinearPolarizerHWPRule': 'RPolHWP', 'BlockRowBlockDiagonalRule': 'RRowDiag',
    'BlockDiagonalBlockColumnRule': 'RDiagCol', 'BlockDiagonalBlockDiagonalRule': 'RDiagDiag',
    'BlockRowBlockColumnRule': 'RRowCol', 'IndexTransposeRule': 'RIndexT', 'TransposeIndexRule': 'RTIndex',
}
METHODS = ['__matmul__', '__rmatmul__', '__add__', '__radd__', '__neg__', 'transpose', 'inverse', 'reduce', 'out_structure', 'in_structure', 'as_matrix']


def import_all():
    import furax

    mods = []
    for m in pkgutil.walk_packages(furax.__path__, 'furax.'):
        try:
            mods.append(importlib.import_module(m.name))
        except Exception as e:  # optional dependencies (toast data etc.)
            if m.name.startswith('furax.toast') or 'slurm' in m.name:
                continue
            raise Tie(f'cannot import {m.name}: {type(e).__name__}: {e}')
    return mods


def all_operator_classes():
    from furax._base.core import AbstractLinearOperator

    seen, todo = [], [AbstractLinearOperator]
    while todo:
        c = todo.pop()
        if c in seen:
            continue
        seen.append(c)
        todo += c.__subclasses__()
    return [c for c in seen if c.__module__.startswith('furax')]


def owner(cls, attr) -> str:
    for k in cls.__mro__:
        if attr in k.__dict__:
            f = k.__dict__[attr]
            f = getattr(f, '__func__', f)
            if isinstance(f, property):
                f = f.fget
            q = getattr(f, '__qualname__', type(f).__name__)
            if '<lambda>' in q:
                # decorators assign lambdas / other classes' functions: name them by what they do
                try:
                    src = inspect.getsource(f).strip()
                except Exception:
                    src = q
                q = 'lambda:' + ' '.join(src.split())
            return f'{k.__name__}:{q}' if k.__module__.startswith('furax') else f'<ext>:{q}'
    return '<none>'


def cstr(s: str) -> str:
    return '"' + s.replace('"', '""') + '"%string'


def clist(items) -> str:
    return '[' + '; '.join(items) + ']'


def cls_tuple(x, names) -> str:
    if x is None:
        return 'None'
    xs = x if isinstance(x, tuple) else (x,)
    out = []
    for c in xs:
        if c.__name__ not in names:
            raise Tie(f'rule guard names class {c.__name__} unknown to the model')
        out.append(names[c.__name__])
    return f'(Some {clist(out)})'


def generate(gen_dir: Path) -> dict:
    import_all()
    import lineax as lx
    from furax._base.rules import BINARY_RULE_REGISTRY

    names = {v: k for k, v in CLS.items()}
    classes = all_operator_classes()
    pyclasses = {c.__name__: c for c in classes}
    unknown = sorted(n for n in pyclasses if n not in names)
    missing = sorted(n for n in names if n not in pyclasses)
    # every other operator class of the package must be a plain leaf class (direct subclass of
    # AbstractLinearOperator without own dunders): the model's CAtom.  Anything else is refused.
    for n in unknown:
        raise Tie(f'operator class {n} is not known to the model (Model/Op.v cls)')
    optional = {'ToastObservationMatrixOperator', 'ToastObservationMatrixTransposeOperator'}
    for n in missing:
        if n not in optional:
            raise Tie(f'model class {n} does not exist in the package any more')

    rules, order = [], []
    for r in BINARY_RULE_REGISTRY:
        rn = type(r).__name__
        if rn not in RULES:
            raise Tie(f'registered binary rule {rn} is not known to the model (Model/Algebra.v rule_id)')
        g = f'mkGuard {cls_tuple(r.operator_class, names)} {cls_tuple(r.left_operator_class, names)} {cls_tuple(r.right_operator_class, names)}'
        rules.append(f'({RULES[rn]}, {g})')
        order.append(RULES[rn])

    present = [k for k, v in CLS.items() if v in pyclasses]
    sub = []
    for c in present:
        sups = [d for d in present if issubclass(pyclasses[CLS[c]], pyclasses[CLS[d]])]
        sub.append(f'({c}, {clist(sups)})')

    methods = []
    for c in present:
        k = pyclasses[CLS[c]]
        methods.append(f'({c}, {clist([cstr(owner(k, m)) for m in METHODS])})')

    tags = []
    tagfs = ['is_diagonal', 'is_lower_triangular', 'is_upper_triangular', 'is_tridiagonal', 'is_symmetric',
             'is_positive_semidefinite', 'is_negative_semidefinite']
    for c in present:
        k = pyclasses[CLS[c]]
        vals = []
        if c == 'CAbstractLinearOperator':
            continue  # the abstract root has no registration of its own (lineax's default raises)
        for t in tagfs:
            f = getattr(lx, t)
            impl = f.dispatch(k)
            try:
                src = ' '.join(inspect.getsource(impl).split())
            except Exception:
                src = getattr(impl, '__qualname__', '?')
            if 'lambda _: True' in src:
                vals.append('true')
            elif 'lambda _: False' in src:
                vals.append('false')
            else:
                raise Tie(f'tag {t} of {k.__name__} dispatches to something the translator does not recognise: {src[:80]}')
        tags.append(f'({c}, {clist(vals)})')

    text = f'''(* GENERATED by /verif/tools/translate/tables.py from the imported furax package - do not edit *)
From Coq Require Import List String.
From Furax Require Import Model.Op Model.Algebra.
Import ListNotations.
Definition gen_rules : list (rule_id * guard) := {clist(rules)}.
Definition gen_order : list rule_id := {clist(order)}.
Definition gen_classes : list cls := {clist(present)}.
Definition gen_subclass : list (cls * list cls) := {clist(sub)}.
Definition gen_method_names : list string := {clist([cstr(m) for m in METHODS])}.
Definition gen_methods : list (cls * list string) := {clist(methods)}.
Definition gen_tag_names : list string := {clist([cstr(t) for t in tagfs])}.
Definition gen_tags : list (cls * list bool) := {clist(tags)}.
'''
    gen_dir.mkdir(parents=True, exist_ok=True)
    (gen_dir / 'Tables.v').write_text(text)
    return {'rules': order, 'classes': len(present), 'optional_missing': [n for n in missing if n in optional]}


if __name__ == '__main__':
    print(generate(Path(sys.argv[1]) if len(sys.argv) > 1 else Path('/tmp/gen')))
