"""T-tie translator of property C08: regenerates Gen/TagTable.v from the imported furax package.

For every subclass of furax's AbstractLinearOperator reachable after importing all modules under
src/furax (the abstract root excluded: it has no registration of its own) one row of ten booleans:

  is_diagonal, is_lower_triangular, is_upper_triangular, is_tridiagonal, is_symmetric,
  is_positive_semidefinite, is_negative_semidefinite
        the value of the lineax tag predicate on the function the class DISPATCHES to
        (functools.singledispatch: own registration, else the nearest registered base class);
  transpose_returns_self
        the `transpose` the class resolves to (MRO) is `lambda self: self` (decorator `symmetric`) or
        any function with the same body;
  inverse_is_transpose
        `cls.inverse is cls.transpose` (decorator `orthogonal`, or `inverse = transpose` in a class body);
  out_structure_is_in_structure
        `cls.out_structure is cls.in_structure` (decorator `square`).

plus, read from the source of furax/_base/core.py with `ast`: the tags that get a False default
(`_monkey_patch_operator`), what every decorator does (tag it registers, decorators it calls,
class attributes it assigns), and the public construction paths of the (tagged) HomothetyOperator:
the scalar check and the operator built by `__rmul__` / `__truediv__` (gen_scale_paths), with
`__mul__`, `__neg__`, `__sub__` going through them.

Fails closed (lib.Tie) on: an operator class the model does not know, a tag predicate exposed by
lineax that is neither modelled nor known to be ignored by furax, a dispatch target that is not one of
the two constant lambdas, a decorator whose body has a statement of an unknown form.
"""
from __future__ import annotations

import ast
import inspect
import sys
from pathlib import Path

sys.path.insert(0, str(Path(__file__).resolve().parents[2] / 'harness'))
sys.path.insert(0, str(Path(__file__).resolve().parent))
from lib import Tie  # noqa: E402

import tables  # noqa: E402  (the lead's translator: class enumeration and the model's class names)

TAGS = ['is_diagonal', 'is_lower_triangular', 'is_upper_triangular', 'is_tridiagonal', 'is_symmetric',
        'is_positive_semidefinite', 'is_negative_semidefinite']
EFFECTS = ['transpose_returns_self', 'inverse_is_transpose', 'out_structure_is_in_structure']
# lineax predicates furax never registers for its classes (asking them of a furax operator raises
# NotImplementedError, which claims nothing)
UNREGISTERED_OK = {'has_unit_diagonal'}

_TRUE = (lambda _: True).__code__
_FALSE = (lambda _: False).__code__
_SELF = (lambda self: self).__code__


def _const_lambda(f):
    """True/False when f is `lambda _: True` / `lambda _: False` (by bytecode), else None."""
    code = getattr(f, '__code__', None)
    if code is None or code.co_argcount != 1 or code.co_names or code.co_freevars:
        return None
    if code.co_code == _TRUE.co_code and code.co_consts == _TRUE.co_consts:
        return True
    if code.co_code == _FALSE.co_code and code.co_consts == _FALSE.co_consts:
        return False
    return None


def resolve(cls, attr):
    for k in cls.__mro__:
        if attr in k.__dict__:
            f = k.__dict__[attr]
            return getattr(f, '__func__', f)
    return None


def returns_self(f) -> bool:
    code = getattr(f, '__code__', None)
    return bool(
        code is not None and code.co_argcount == 1 and code.co_kwonlyargcount == 0
        and not code.co_names and not code.co_freevars and code.co_code == _SELF.co_code
    )


def class_row(cls) -> list[bool]:
    import lineax as lx

    row = []
    for t in TAGS:
        impl = getattr(lx, t).dispatch(cls)
        v = _const_lambda(impl)
        if v is None:
            where = getattr(impl, '__qualname__', repr(impl))
            raise Tie(f'tag {t} of {cls.__name__} dispatches to {where}, which is not `lambda _: True/False`')
        row.append(v)
    row.append(returns_self(resolve(cls, 'transpose')))
    row.append(cls.inverse is cls.transpose)
    row.append(cls.out_structure is cls.in_structure)
    return row


# ----------------------------------------------------------------------------------------------
# the decorators, from the source


def _is_cls_attr(node, name=None):
    return (isinstance(node, ast.Attribute) and isinstance(node.value, ast.Name) and node.value.id == 'cls'
            and (name is None or node.attr == name))


def decorators_from_source(core_path: Path):
    tree = ast.parse(core_path.read_text())
    defaults = None
    decos = {}
    for node in tree.body:
        if not isinstance(node, ast.FunctionDef):
            continue
        if node.name == '_monkey_patch_operator':
            for st in ast.walk(node):
                if isinstance(st, ast.For) and isinstance(st.iter, ast.List):
                    names = []
                    for e in st.iter.elts:
                        if not (isinstance(e, ast.Attribute) and isinstance(e.value, ast.Name) and e.value.id == 'lx'):
                            raise Tie('_monkey_patch_operator: unexpected element in the tag list')
                        names.append(e.attr)
                    defaults = names
            continue
        args = [a.arg for a in node.args.args]
        if args != ['cls'] or node.name.startswith('_'):
            continue
        # a decorator: def name(cls): <statements>; return cls
        tags, calls, sets = [], [], []
        body = list(node.body)
        if not (body and isinstance(body[-1], ast.Return) and isinstance(body[-1].value, ast.Name)
                and body[-1].value.id == 'cls'):
            raise Tie(f'decorator {node.name}: does not end with `return cls`')
        for st in body[:-1]:
            # lx.<tag>.register(cls)(lambda _: True)
            if (isinstance(st, ast.Expr) and isinstance(st.value, ast.Call) and isinstance(st.value.func, ast.Call)
                    and isinstance(st.value.func.func, ast.Attribute) and st.value.func.func.attr == 'register'):
                target = st.value.func.func.value
                if not (isinstance(target, ast.Attribute) and isinstance(target.value, ast.Name) and target.value.id == 'lx'):
                    raise Tie(f'decorator {node.name}: registers on something that is not lx.<tag>')
                val = ast.unparse(st.value.args[0]) if st.value.args else '?'
                if val != 'lambda _: True':
                    raise Tie(f'decorator {node.name}: registers {val!r} instead of `lambda _: True`')
                if [ast.unparse(a) for a in st.value.func.args] != ['cls']:
                    raise Tie(f'decorator {node.name}: registers for something else than cls')
                tags.append(target.attr)
            # other_decorator(cls)
            elif (isinstance(st, ast.Expr) and isinstance(st.value, ast.Call) and isinstance(st.value.func, ast.Name)
                  and [ast.unparse(a) for a in st.value.args] == ['cls']):
                calls.append(st.value.func.id)
            # cls.attr = value
            elif isinstance(st, ast.Assign) and len(st.targets) == 1 and _is_cls_attr(st.targets[0]):
                sets.append((st.targets[0].attr, ast.unparse(st.value)))
            elif isinstance(st, ast.Expr) and isinstance(st.value, ast.Constant) and isinstance(st.value.value, str):
                continue  # docstring
            else:
                raise Tie(f'decorator {node.name}: statement of an unknown form: {ast.unparse(st)[:80]}')
        if tags or sets or calls:
            decos[node.name] = (tags, calls, sets)
    if defaults is None:
        raise Tie('_monkey_patch_operator: the list of default tags was not found')
    return defaults, decos


def scale_paths_from_source(core_path: Path):
    """The public construction paths of HomothetyOperator in AbstractLinearOperator: for `__rmul__` and
    `__truediv__` the statements must be exactly

        other = jnp.asarray(other)
        if <guard>: raise <Exception>(...)
        return HomothetyOperator(<value>, <structure>) @ self

    -> [(method, guard, exception, value, structure)]; `__mul__` must return `other * self`,
    `__neg__` `(-1) * self`, and `__sub__` must end with `self + -other` (so that they all go through
    `__rmul__`).  Anything else fails closed."""
    tree = ast.parse(core_path.read_text())
    cls = next((n for n in tree.body if isinstance(n, ast.ClassDef) and n.name == 'AbstractLinearOperator'), None)
    if cls is None:
        raise Tie('class AbstractLinearOperator not found in core.py')
    meths = {n.name: n for n in cls.body if isinstance(n, ast.FunctionDef)}

    def body(name):
        if name not in meths:
            raise Tie(f'AbstractLinearOperator.{name} not found')
        return [st for st in meths[name].body
                if not (isinstance(st, ast.Expr) and isinstance(st.value, ast.Constant) and isinstance(st.value.value, str))]

    out = []
    for name in ('__rmul__', '__truediv__'):
        b = body(name)
        if [a.arg for a in meths[name].args.args] != ['self', 'other']:
            raise Tie(f'{name}: unexpected signature')
        if len(b) != 3:
            raise Tie(f'{name}: {len(b)} statements instead of asarray / guard / return')
        if not (isinstance(b[0], ast.Assign) and ast.unparse(b[0]) == 'other = jnp.asarray(other)'):
            raise Tie(f'{name}: first statement is {ast.unparse(b[0])[:80]!r}')
        g = b[1]
        if not (isinstance(g, ast.If) and not g.orelse and len(g.body) == 1 and isinstance(g.body[0], ast.Raise)
                and isinstance(g.body[0].exc, ast.Call) and isinstance(g.body[0].exc.func, ast.Name)):
            raise Tie(f'{name}: second statement is not `if <guard>: raise <Exception>(...)`')
        r = b[2]
        if not (isinstance(r, ast.Return) and isinstance(r.value, ast.BinOp) and isinstance(r.value.op, ast.MatMult)
                and ast.unparse(r.value.right) == 'self' and isinstance(r.value.left, ast.Call)
                and ast.unparse(r.value.left.func) == 'HomothetyOperator' and len(r.value.left.args) == 2
                and not r.value.left.keywords):
            raise Tie(f'{name}: does not return HomothetyOperator(value, structure) @ self')
        out.append((name, ast.unparse(g.test), g.body[0].exc.func.id, ast.unparse(r.value.left.args[0]),
                    ast.unparse(r.value.left.args[1])))
    for name, want in (('__mul__', ['return other * self']), ('__neg__', ['return -1 * self']), ('__pos__', ['return self'])):
        got = [ast.unparse(st) for st in body(name)]
        if got != want:
            raise Tie(f'{name}: body {got!r} instead of {want!r}')
    sub = [ast.unparse(st) for st in body('__sub__')]
    if 'result: AbstractLinearOperator = self + -other' not in sub or sub[-1] != 'return result':
        raise Tie(f'__sub__: does not return self + -other: {sub[-2:]!r}')
    return out


def cstr(s: str) -> str:
    return '"' + s.replace('"', '""') + '"%string'


def clist(items) -> str:
    return '[' + '; '.join(items) + ']'


def generate(gen_dir: Path) -> dict:
    tables.import_all()
    import furax
    import lineax as lx

    # tag predicates lineax exposes to solvers: all must be modelled or known to be unregistered
    exposed = sorted(n for n in dir(lx) if n.startswith(('is_', 'has_')) and hasattr(getattr(lx, n), 'dispatch'))
    for n in exposed:
        if n not in TAGS and n not in UNREGISTERED_OK:
            raise Tie(f'lineax exposes the tag predicate {n}, which the model does not know')
    for n in TAGS:
        if n not in exposed:
            raise Tie(f'lineax no longer exposes the tag predicate {n}')

    names = {v: k for k, v in tables.CLS.items()}
    classes = tables.all_operator_classes()
    rows, info = [], {}
    for c in sorted(classes, key=lambda c: list(tables.CLS.values()).index(c.__name__) if c.__name__ in names else -1):
        if c.__name__ not in names:
            raise Tie(f'operator class {c.__name__} ({c.__module__}) is not known to the model (Model/Op.v cls)')
        if c.__name__ == 'AbstractLinearOperator':
            continue
        # furax never registers these for its classes; a registration would be a tag the model does not know
        for n in UNREGISTERED_OK:
            f = getattr(lx, n)
            if any(r is not object and issubclass(c, r) for r in f.registry):
                raise Tie(f'{c.__name__} registers the lineax predicate {n}, which the model does not know')
        row = class_row(c)
        rows.append(f'({names[c.__name__]}, {clist(["true" if b else "false" for b in row])})')
        info[c.__name__] = row

    core = Path(inspect.getsourcefile(sys.modules['furax._base.core']))
    defaults, decos = decorators_from_source(core)
    for t in defaults:
        if t not in TAGS:
            raise Tie(f'_monkey_patch_operator gives a default to the unknown tag {t}')
    deco_terms = []
    for name in sorted(decos):
        tags, calls, sets = decos[name]
        for t in tags:
            if t not in TAGS:
                raise Tie(f'decorator {name} registers the unknown tag {t}')
        sets_t = clist([f'({cstr(a)}, {cstr(v)})' for a, v in sets])
        deco_terms.append(f'({cstr(name)}, ({clist([cstr(t) for t in tags])}, ({clist([cstr(c) for c in calls])}, {sets_t})))')

    paths = scale_paths_from_source(core)
    path_terms = [f'({cstr(n)}, ({cstr(g)}, ({cstr(e)}, ({cstr(v)}, {cstr(st)}))))' for n, g, e, v, st in paths]

    text = f'''(* GENERATED by /verif/tools/translate/tags.py from the imported furax package ({Path(furax.__file__).parent}) - do not edit *)
From Coq Require Import List String.
From Furax Require Import Model.Op.
Import ListNotations.
Definition gen_tagq_names : list string := {clist([cstr(t) for t in TAGS + EFFECTS])}.
Definition gen_tag_table : list (cls * list bool) := {clist(rows)}.
Definition gen_default_tags : list string := {clist([cstr(t) for t in defaults])}.
Definition gen_decorators : list (string * (list string * (list string * list (string * string)))) := {clist(deco_terms)}.
Definition gen_scale_paths : list (string * (string * (string * (string * string)))) := {clist(path_terms)}.
'''
    gen_dir.mkdir(parents=True, exist_ok=True)
    (gen_dir / 'TagTable.v').write_text(text)
    return {'rows': info, 'defaults': defaults, 'decorators': {k: v for k, v in decos.items()}, 'scale_paths': paths}


if __name__ == '__main__':
    import json

    out = generate(Path(sys.argv[1]) if len(sys.argv) > 1 else Path('/tmp/C08/gen'))
    print(json.dumps(out, indent=1, default=str))
