"""Fail-closed translator: furax/operators/toeplitz.py  ->  ToeplitzArith.v  (logical path FuraxGen).

What is translated (from the AST of the working tree, on every check):
  * SymmetricBandToeplitzOperator.METHODS                      -> METHODS : list string
  * _get_default_fft_size                                      -> default_fft_size : Z -> Z
  * __init__ (validation + default FFT size)                   -> ctor : string -> option Z -> Z -> Z -> result (option Z)
  * _apply_direct / _apply_fft / _apply_overlap_save: every integer quantity (pad widths, FFT length,
    block count, offsets, window sizes, loop bounds, slice bounds) -> direct_arith / fft_arith / os_arith
    building the records direct_q / fft_q / os_q of Furax.Model.Toeplitz, and the dtype `y` is
    allocated with -> os_y_dtype.
The array-level statements (which JAX primitive is applied to which array) are not translated but
*matched* against the exact skeleton the hand-written model mirrors; any other statement, any
expression outside the small integer grammar below, any re-assignment, any unknown name raises Tie.

Integer grammar: names bound earlier, integer literals, + - * // and unary -, `kernel.size`,
`x.shape[-1]`, `self.fft_size`, `band_values.size`, `band_values.shape[-1]`, int(np.ceil(a / b)) (ceiling
division `cdiv`), int(2 ** (a + np.ceil(np.log2(b)))) (`2 ^ (a + clog2 b)`), comparisons, and/or/not,
`fft_size is [not] None`, `method [not] in self.METHODS`, `method.startswith('...')`.
"""
from __future__ import annotations

import ast
import sys
from pathlib import Path

try:  # run inside the harness
    from lib import Tie
except Exception:  # stand-alone use

    class Tie(Exception):
        pass


REL = 'src/furax/operators/toeplitz.py'
CLASS = 'SymmetricBandToeplitzOperator'


def die(node, why):
    line = getattr(node, 'lineno', '?')
    src = ast.unparse(node) if isinstance(node, ast.AST) else str(node)
    raise Tie(f'translator toeplitz.py: {why} at line {line}: {src[:160]}')


# ------------------------------------------------------------------------------------------------
# expressions


class Scope:
    def __init__(self, attrs: dict[str, str], opt: set[str] = frozenset(), strs: set[str] = frozenset()):
        self.ints: list[str] = []  # integer variables in scope (Coq name = Python name)
        self.attrs = attrs  # unparsed attribute expression -> Coq name
        self.opt = set(opt)  # variables of type int | None
        self.strs = set(strs)
        self.opt_guard = 0  # >0 inside `if <opt> is not None`
        self.used_attrs: set[str] = set()

    def bind(self, name, node):
        if name in self.ints or name in self.attrs.values() or name in self.opt or name in self.strs:
            die(node, f're-assignment of {name} (single assignment expected)')
        if not name.isidentifier() or name in ('fun', 'let', 'in', 'if', 'then', 'else', 'match', 'end'):
            die(node, f'unusable variable name {name}')
        self.ints.append(name)


def key(node) -> str:
    return ast.unparse(node).replace(' ', '')


def tr_int(node, sc: Scope) -> str:
    k = key(node)
    if k in sc.attrs:
        sc.used_attrs.add(sc.attrs[k])
        return sc.attrs[k]
    if isinstance(node, ast.Constant) and type(node.value) is int:
        return str(node.value) if node.value >= 0 else f'({node.value})'
    if isinstance(node, ast.Name):
        if node.id in sc.ints:
            return node.id
        if node.id in sc.opt:
            if sc.opt_guard <= 0:
                die(node, f'{node.id} (int | None) used as an integer outside `if {node.id} is not None`')
            return f'(oget {node.id})'
        die(node, f'unknown integer variable {node.id}')
    if isinstance(node, ast.UnaryOp) and isinstance(node.op, ast.USub):
        return f'(- {tr_int(node.operand, sc)})'
    if isinstance(node, ast.BinOp):
        ops = {ast.Add: '+', ast.Sub: '-', ast.Mult: '*', ast.FloorDiv: '/'}
        if type(node.op) in ops:
            return f'({tr_int(node.left, sc)} {ops[type(node.op)]} {tr_int(node.right, sc)})'
        die(node, 'operator outside + - * //')
    if isinstance(node, ast.Call) and key(node.func) == 'int' and len(node.args) == 1 and not node.keywords:
        return tr_float(node.args[0], sc)
    if isinstance(node, ast.Call) and key(node.func) == 'self._get_default_fft_size' and len(node.args) == 1 and not node.keywords:
        return f'(default_fft_size {tr_int(node.args[0], sc)})'
    die(node, 'expression outside the integer grammar')


def tr_float(node, sc: Scope) -> str:
    """Integer-valued float expressions under int(...)."""
    if isinstance(node, ast.Call) and key(node.func) == 'np.ceil' and len(node.args) == 1 and not node.keywords:
        a = node.args[0]
        if isinstance(a, ast.BinOp) and isinstance(a.op, ast.Div):
            return f'(cdiv {tr_int(a.left, sc)} {tr_int(a.right, sc)})'
        if isinstance(a, ast.Call) and key(a.func) == 'np.log2' and len(a.args) == 1 and not a.keywords:
            return f'(clog2 {tr_int(a.args[0], sc)})'
        die(node, 'np.ceil of something other than a / b or np.log2(b)')
    if isinstance(node, ast.BinOp) and isinstance(node.op, ast.Pow):
        if not (isinstance(node.left, ast.Constant) and node.left.value == 2):
            die(node, 'power with a base other than 2')
        return f'(2 ^ {tr_float(node.right, sc)})'
    if isinstance(node, ast.BinOp) and isinstance(node.op, ast.Add):
        return f'({tr_float(node.left, sc)} + {tr_float(node.right, sc)})'
    return tr_int(node, sc)


def tr_bool(node, sc: Scope) -> str:
    if isinstance(node, ast.BoolOp):
        op = ' && ' if isinstance(node.op, ast.And) else ' || '
        parts = []
        guard = 0
        for v in node.values:
            parts.append(tr_bool(v, sc))
            # `a is not None and a < b`: the left conjunct guards the right ones
            if isinstance(node.op, ast.And) and is_not_none(v, sc):
                sc.opt_guard += 1
                guard += 1
        sc.opt_guard -= guard
        return '(' + op.join(parts) + ')'
    if isinstance(node, ast.UnaryOp) and isinstance(node.op, ast.Not):
        return f'(negb {tr_bool(node.operand, sc)})'
    if isinstance(node, ast.Compare) and len(node.ops) == 1:
        op, left, right = node.ops[0], node.left, node.comparators[0]
        if isinstance(op, (ast.Is, ast.IsNot)):
            if isinstance(left, ast.Name) and left.id in sc.opt and isinstance(right, ast.Constant) and right.value is None:
                return f'({"is_none" if isinstance(op, ast.Is) else "is_some"} {left.id})'
            die(node, '`is` other than <optional int> is [not] None')
        if isinstance(op, (ast.In, ast.NotIn)):
            if isinstance(left, ast.Name) and left.id in sc.strs and key(right) == 'self.METHODS':
                t = f'(str_in {left.id} METHODS)'
                return t if isinstance(op, ast.In) else f'(negb {t})'
            die(node, '`in` other than <method> [not] in self.METHODS')
        ops = {ast.Lt: '<?', ast.LtE: '<=?', ast.Gt: '>?', ast.GtE: '>=?', ast.Eq: '=?'}
        if type(op) in ops:
            return f'({tr_int(left, sc)} {ops[type(op)]} {tr_int(right, sc)})'
        if isinstance(op, ast.NotEq):
            return f'(negb ({tr_int(left, sc)} =? {tr_int(right, sc)}))'
        die(node, 'comparison operator')
    if (
        isinstance(node, ast.Call)
        and isinstance(node.func, ast.Attribute)
        and node.func.attr == 'startswith'
        and isinstance(node.func.value, ast.Name)
        and node.func.value.id in sc.strs
        and len(node.args) == 1
        and not node.keywords
        and isinstance(node.args[0], ast.Constant)
        and isinstance(node.args[0].value, str)
    ):
        return f'(startswith {node.func.value.id} {cstr(node.args[0].value)})'
    die(node, 'expression outside the boolean grammar')


def is_not_none(node, sc) -> bool:
    return (
        isinstance(node, ast.Compare)
        and len(node.ops) == 1
        and isinstance(node.ops[0], ast.IsNot)
        and isinstance(node.left, ast.Name)
        and node.left.id in sc.opt
        and isinstance(node.comparators[0], ast.Constant)
        and node.comparators[0].value is None
    )


def cstr(s: str) -> str:
    if not all(32 <= ord(c) < 127 for c in s):
        raise Tie(f'translator toeplitz.py: non-ASCII string {s!r}')
    return '"' + s.replace('"', '""') + '"%string'


# ------------------------------------------------------------------------------------------------
# statement skeletons with holes


def match(tpl, node, holes: dict) -> bool:
    """Structural equality of AST nodes; a Name `_H_xxx` in the template binds the sub-node."""
    if isinstance(tpl, ast.Name) and tpl.id.startswith('_H_'):
        holes[tpl.id[3:]] = node
        return True
    if type(tpl) is not type(node):
        return False
    if isinstance(tpl, ast.AST):
        for f in tpl._fields:
            if f in ('ctx', 'type_comment', 'kind', 'returns', 'decorator_list', 'type_params'):
                continue
            if not match(getattr(tpl, f, None), getattr(node, f, None), holes):
                return False
        return True
    if isinstance(tpl, list):
        return len(tpl) == len(node) and all(match(a, b, holes) for a, b in zip(tpl, node))
    return tpl == node


def stmt(src: str):
    return ast.parse(src).body[0]


def walk_body(body, templates, sc: Scope, lets: list, found: dict, special=None):
    """Every statement is an integer let (Name = <int expr>) or the next pending skeleton statement."""
    pending = list(templates)
    for st in body:
        if isinstance(st, ast.Expr) and isinstance(st.value, ast.Constant) and isinstance(st.value.value, str):
            continue  # docstring
        if pending:
            name, tpl = pending[0]
            holes: dict = {}
            alts = tpl if isinstance(tpl, list) else [tpl]
            hit = False
            for alt in alts:
                holes = {}
                if match(stmt(alt), st, holes):
                    hit = True
                    break
            if hit:
                pending.pop(0)
                if special and name in special:
                    special[name](st, holes)
                else:
                    for h, sub in holes.items():
                        if h in found:
                            die(st, f'quantity {h} defined twice')
                        found[h] = tr_int(sub, sc)
                continue
        if (
            isinstance(st, ast.Assign)
            and len(st.targets) == 1
            and isinstance(st.targets[0], ast.Name)
            and st.type_comment is None
        ):
            name = st.targets[0].id
            expr = tr_int(st.value, sc)
            if expr == name and name in sc.attrs.values() and name not in sc.ints:
                sc.ints.append(name)  # `l = x.shape[-1]`: the parameter itself
                continue
            sc.bind(name, st)
            lets.append((name, expr))
            continue
        nxt = pending[0][0] if pending else 'nothing more'
        die(st, f'unexpected statement (expected an integer assignment or the `{nxt}` statement)')
    if pending:
        raise Tie(f'translator toeplitz.py: statement `{pending[0][0]}` of the expected skeleton is missing')


def let_chain(lets, body: str, indent='  ') -> str:
    return ''.join(f'{indent}let {n} := {e} in\n' for n, e in lets) + indent + body


# ------------------------------------------------------------------------------------------------
# the functions


def find_class(tree):
    for n in tree.body:
        if isinstance(n, ast.ClassDef) and n.name == CLASS:
            return n
    raise Tie(f'translator toeplitz.py: class {CLASS} not found')


def method_def(cls, name, args):
    fs = [n for n in cls.body if isinstance(n, ast.FunctionDef) and n.name == name]
    if len(fs) != 1:
        raise Tie(f'translator toeplitz.py: expected exactly one definition of {name}, found {len(fs)}')
    f = fs[0]
    got = [a.arg for a in f.args.posonlyargs + f.args.args] + ['*'] * bool(f.args.kwonlyargs) + [a.arg for a in f.args.kwonlyargs]
    if got != args or f.args.vararg or f.args.kwarg:
        die(f, f'signature of {name} is {got}, expected {args}')
    return f


def tr_methods(cls) -> str:
    for n in cls.body:
        tgt = None
        if isinstance(n, ast.AnnAssign) and isinstance(n.target, ast.Name):
            tgt, val = n.target.id, n.value
        elif isinstance(n, ast.Assign) and len(n.targets) == 1 and isinstance(n.targets[0], ast.Name):
            tgt, val = n.targets[0].id, n.value
        if tgt == 'METHODS':
            if not isinstance(val, (ast.Tuple, ast.List)) or not all(
                isinstance(e, ast.Constant) and isinstance(e.value, str) for e in val.elts
            ):
                die(n, 'METHODS is not a literal tuple of strings')
            return 'Definition METHODS : list string := [' + '; '.join(cstr(e.value) for e in val.elts) + '].\n'
    raise Tie('translator toeplitz.py: METHODS not found')


def tr_default_fft(cls) -> str:
    f = method_def(cls, '_get_default_fft_size', ['band_number'])
    if [key(d) for d in f.decorator_list] != ['staticmethod']:
        die(f, '_get_default_fft_size is expected to be a staticmethod')
    sc = Scope({})
    sc.ints.append('band_number')
    lets, found = [], {}
    walk_body(f.body, [('return', 'return _H_result')], sc, lets, found)
    return 'Definition default_fft_size (band_number : Z) : Z :=\n' + let_chain(lets, found['result']) + '.\n'


def tr_ctor(cls) -> str:
    f = method_def(cls, '__init__', ['self', 'band_values', 'in_structure', '*', 'method', 'fft_size'])
    kwd = {a.arg: d for a, d in zip(f.args.kwonlyargs, f.args.kw_defaults)}
    if not (isinstance(kwd['fft_size'], ast.Constant) and kwd['fft_size'].value is None):
        die(f, 'default of fft_size is not None')
    if not (isinstance(kwd['method'], ast.Constant) and isinstance(kwd['method'].value, str)):
        die(f, 'default of method is not a string literal')
    sc = Scope({'band_values.size': 'bv_size', 'band_values.shape[-1]': 'bv_last'}, opt={'fft_size'}, strs={'method'})
    lines: list[str] = []
    stored = {'band_values': False, '_in_structure': False, 'method': False, 'fft_size': False}
    nrebind = [0]

    def guards(body, conj: list[str]):
        """`if c: raise ValueError(...)` and `if c: <guards>` (no else), flattened with conjunctions."""
        for st in body:
            if not isinstance(st, ast.If) or st.orelse:
                die(st, 'only `if ...: raise` statements are expected here')
            inner = is_not_none(st.test, sc)
            test = tr_bool(st.test, sc)
            if len(st.body) == 1 and isinstance(st.body[0], ast.Raise):
                lines.append(f'  if {" && ".join(conj + [test])} then Err {exc_kind(st.body[0])} else')
            else:
                sc.opt_guard += inner
                guards(st.body, conj + [test])
                sc.opt_guard -= inner

    def exc_kind(r: ast.Raise) -> str:
        if r.cause is None and isinstance(r.exc, ast.Call) and isinstance(r.exc.func, ast.Name) and r.exc.func.id in (
            'ValueError',
            'TypeError',
        ):
            return r.exc.func.id
        die(r, 'raise of something other than ValueError(...)/TypeError(...)')

    done = False
    for st in f.body:
        if done:
            die(st, 'statement after `self.fft_size = fft_size`')
        if isinstance(st, ast.If):
            # the default-size rebinding:  if <cond>: fft_size = <int expr>
            if (
                not st.orelse
                and len(st.body) == 1
                and isinstance(st.body[0], ast.Assign)
                and key(st.body[0].targets[0]) == 'fft_size'
                and len(st.body[0].targets) == 1
            ):
                cond = tr_bool(st.test, sc)
                val = tr_int(st.body[0].value, sc)
                nrebind[0] += 1
                lines.append(f'  let fft_size := if {cond} then Some {val} else fft_size in')
                continue
            guards([st], [])
            continue
        if isinstance(st, ast.Assign) and len(st.targets) == 1:
            t = st.targets[0]
            if isinstance(t, ast.Name):
                expr = tr_int(st.value, sc)
                sc.bind(t.id, st)
                lines.append(f'  let {t.id} := {expr} in')
                continue
            if isinstance(t, ast.Attribute) and key(t.value) == 'self' and t.attr in stored and not stored[t.attr]:
                want = {'band_values': 'band_values', '_in_structure': 'in_structure', 'method': 'method', 'fft_size': 'fft_size'}[t.attr]
                if key(st.value) != want:
                    die(st, f'self.{t.attr} is expected to store {want}')
                stored[t.attr] = True
                if t.attr == 'fft_size':
                    done = True
                continue
        die(st, 'unexpected statement in __init__')
    if not all(stored.values()):
        raise Tie(f'translator toeplitz.py: __init__ does not store {[k for k, v in stored.items() if not v]}')
    used = sc.used_attrs
    head = (
        '(* the stored fft_size, or the error raised *)\n'
        'Definition ctor (method : string) (fft_size : option Z) (bv_size bv_last : Z) : result (option Z) :=\n'
    )
    out = head + '\n'.join(lines) + '\n  Ok fft_size.\n'
    out += f'Definition ctor_default_method : string := {cstr(kwd["method"].value)}.\n'
    out += '(* which size of band_values the validation reads: ' + ', '.join(sorted(used)) + ' *)\n'
    return out


ATTRS = {'kernel.size': 'ksize', 'x.shape[-1]': 'l', 'self.fft_size': 'fft_size'}


def tr_direct(cls) -> str:
    f = method_def(cls, '_apply_direct', ['self', 'x', 'band_values'])
    sc = Scope(dict(ATTRS))
    lets, found = [], {}
    walk_body(
        f.body,
        [
            ('kernel', 'kernel = self._get_kernel(band_values)'),
            ('return', "return jnp.convolve(jnp.pad(x, (_H_pad_lo, _H_pad_hi)), kernel, mode='valid')"),
        ],
        sc,
        lets,
        found,
    )
    body = f'mkDQ {found["pad_lo"]} {found["pad_hi"]}'
    return 'Definition direct_arith (ksize l : Z) : direct_q :=\n' + let_chain(lets, body) + '.\n'


def tr_fft(cls) -> str:
    f = method_def(cls, '_apply_fft', ['self', 'x', 'band_values'])
    sc = Scope(dict(ATTRS))
    lets, found = [], {}
    cond = {}

    def whole(st, holes):
        cond['whole'] = tr_bool(st.test, sc)

    walk_body(
        f.body,
        [
            ('kernel', 'kernel = self._get_kernel(band_values)'),
            ('H', 'H = jnp.fft.fft(kernel, _H_H_len)'),
            ('x_padded', "x_padded = jnp.pad(x, (_H_pad_lo, _H_pad_hi), mode='constant')"),
            ('X_padded', 'X_padded = jnp.fft.fft(x_padded)'),
            ('Y_padded', ['Y_padded = jnp.fft.ifft(X_padded * H).real', 'Y_padded = jnp.fft.ifft(H * X_padded).real']),
            ('whole', 'if _H_cond:\n    return Y_padded'),
            ('return', 'return Y_padded[_H_lo:_H_hi]'),
        ],
        sc,
        lets,
        found,
        special={'whole': whole},
    )
    body = f'mkFQ {found["H_len"]} {found["pad_lo"]} {found["pad_hi"]} {cond["whole"]} {found["lo"]} {found["hi"]}'
    return 'Definition fft_arith (ksize l : Z) : fft_q :=\n' + let_chain(lets, body) + '.\n'


def tr_dtype(node) -> str:
    k = key(node)
    table = {
        'jnp.result_type(x.dtype,band_values.dtype)': 'YResult',
        'jnp.result_type(band_values.dtype,x.dtype)': 'YResult',
        'jnp.result_type(x,band_values)': 'YResult',
        'jnp.result_type(band_values,x)': 'YResult',
        'jnp.result_type(x,kernel)': 'YResult',
        'jnp.result_type(x.dtype,kernel.dtype)': 'YResult',
        'jnp.promote_types(x.dtype,band_values.dtype)': 'YResult',
        'x.dtype': 'YData',
        'band_values.dtype': 'YBand',
        'kernel.dtype': 'YBand',
    }
    if k not in table:
        die(node, 'dtype of y outside the known forms')
    return table[k]


def tr_overlap_save(cls) -> str:
    f = method_def(cls, '_apply_overlap_save', ['self', 'x', 'band_values'])
    sc = Scope(dict(ATTRS))
    lets, found = [], {}
    inner_lets: list = []
    inner_found: dict = {}
    ydt = {}

    def do_assert(st, holes):
        pass

    def do_zeros(st, holes):
        found['y_len'] = tr_int(holes['y_len'], sc)
        ydt['y'] = tr_dtype(holes['dtype']) if 'dtype' in holes else 'YDefault'

    def do_func(st, holes):
        if [a.arg for a in st.args.args] != ['iblock', 'y'] or st.args.vararg or st.args.kwarg or st.args.kwonlyargs or st.decorator_list:
            die(st, 'signature of the loop body is not func(iblock, y)')
        sc.ints.append('iblock')
        n0 = len(sc.ints)
        walk_body(
            st.body,
            [
                ('x_block', 'x_block = lax.dynamic_slice(x_padded, (_H_xb_start,), (_H_xb_size,))'),
                ('X', 'X = jnp.fft.fft(x_block)'),
                ('y_block', ['y_block = jnp.fft.ifft(X * H).real', 'y_block = jnp.fft.ifft(H * X).real']),
                (
                    'y',
                    'y = lax.dynamic_update_slice(y, lax.dynamic_slice(y_block, (_H_keep_start,), (_H_keep_size,)), (_H_write_pos,))',
                ),
                ('return', 'return y'),
            ],
            sc,
            inner_lets,
            inner_found,
        )
        # the loop variable and the body's locals go out of scope
        del sc.ints[n0 - 1 :]

    body = list(f.body)
    funcs = [s for s in body if isinstance(s, ast.FunctionDef)]
    if len(funcs) != 1 or funcs[0].name != 'func':
        die(f, 'expected exactly one inner function `func`')
    k = body.index(funcs[0])
    # the loop body only depends on integer variables bound before it: translate prefix, func, suffix
    pre = [
        ('assert', 'assert self.fft_size is not None'),
        ('kernel', 'kernel = self._get_kernel(band_values)'),
        ('H', 'H = jnp.fft.fft(kernel, _H_H_len)'),
        ('x_padded', "x_padded = jnp.pad(x, (_H_pad_lo, _H_pad_hi), mode='constant')"),
        ('zeros', ['y = jnp.zeros(_H_y_len)', 'y = jnp.zeros(_H_y_len, dtype=_H_dtype)', 'y = jnp.zeros(_H_y_len, _H_dtype)']),
    ]
    # `H = fft(kernel, n)` may come before or after the integer assignments: keep source order, but the
    # skeleton order is fixed except that int assignments may be interleaved freely
    walk_body_reorderable(body[:k], pre, sc, lets, found, special={'assert': do_assert, 'zeros': do_zeros})
    do_func(funcs[0], {})
    walk_body(
        body[k + 1 :],
        [('loop', 'y = lax.fori_loop(_H_loop_lo, _H_loop_hi, func, y)'), ('return', 'return y[_H_out_lo:_H_out_hi]')],
        sc,
        lets,
        found,
    )

    def lam(e):
        return '(fun iblock =>\n' + let_chain(inner_lets, e, indent='      ') + ')'

    rec = (
        'mkOS\n'
        f'    {found["H_len"]} {found["pad_lo"]} {found["pad_hi"]} {found["y_len"]}\n'
        f'    {found["loop_lo"]} {found["loop_hi"]}\n'
        f'    {lam(inner_found["xb_start"])}\n'
        f'    ((fun iblock =>\n{let_chain(inner_lets, inner_found["xb_size"], indent="      ")}) 0)\n'
        f'    ((fun iblock =>\n{let_chain(inner_lets, inner_found["keep_start"], indent="      ")}) 0)\n'
        f'    ((fun iblock =>\n{let_chain(inner_lets, inner_found["keep_size"], indent="      ")}) 0)\n'
        f'    {lam(inner_found["write_pos"])}\n'
        f'    {found["out_lo"]} {found["out_hi"]}'
    )
    # static sizes must not depend on the loop variable
    for q in ('xb_size', 'keep_start', 'keep_size'):
        if uses_iblock(inner_found[q], inner_lets):
            raise Tie(f'translator toeplitz.py: window quantity {q} depends on the loop variable')
    out = 'Definition os_arith (fft_size ksize l : Z) : os_q :=\n' + let_chain(lets, rec) + '.\n'
    out += f'Definition os_y_dtype : ydtype := {ydt["y"]}.\n'
    return out


def uses_iblock(expr: str, inner_lets) -> bool:
    import re

    tainted = {'iblock'}
    for n, e in inner_lets:
        if set(re.findall(r'[A-Za-z_][A-Za-z_0-9]*', e)) & tainted:
            tainted.add(n)
    return bool(set(re.findall(r'[A-Za-z_][A-Za-z_0-9]*', expr)) & tainted)


def walk_body_reorderable(body, templates, sc, lets, found, special=None):
    """Like walk_body, but the skeleton statements may appear in any order (each exactly once)."""
    pending = dict(templates)
    for st in body:
        hit = None
        for name, tpl in pending.items():
            for alt in tpl if isinstance(tpl, list) else [tpl]:
                holes: dict = {}
                if match(stmt(alt), st, holes):
                    hit = (name, holes)
                    break
            if hit:
                break
        if hit:
            name, holes = hit
            del pending[name]
            if special and name in special:
                special[name](st, holes)
            else:
                for h, sub in holes.items():
                    if h in found:
                        die(st, f'quantity {h} defined twice')
                    found[h] = tr_int(sub, sc)
            continue
        if isinstance(st, ast.Assign) and len(st.targets) == 1 and isinstance(st.targets[0], ast.Name):
            name = st.targets[0].id
            if name in ('kernel', 'H', 'x_padded', 'y', 'x', 'band_values'):
                die(st, f'array statement for {name} does not have the expected form')
            expr = tr_int(st.value, sc)
            if expr == name and name in sc.attrs.values() and name not in sc.ints:
                sc.ints.append(name)  # `l = x.shape[-1]`: the parameter itself
                continue
            sc.bind(name, st)
            lets.append((name, expr))
            continue
        die(st, 'unexpected statement')
    if pending:
        raise Tie(f'translator toeplitz.py: statements {sorted(pending)} of the expected skeleton are missing')


def tr_kernel_and_mv(cls) -> str:
    """Not arithmetic: only check that the statements the model mirrors by hand are still there."""
    f = method_def(cls, '_get_kernel', ['self', 'band_values'])
    walk_body(f.body, [('return', 'return jnp.concatenate((band_values[-1:0:-1], band_values))')], Scope({}), [], {})
    f = method_def(cls, 'mv', ['self', 'x'])
    walk_body(
        f.body,
        [
            ('func', "func = jnp.vectorize(self._get_func(), signature='(n),(k)->(n)')"),
            ('return', 'return func(x, self.band_values)'),
        ],
        Scope({}),
        [],
        {},
    )
    f = method_def(cls, '_apply_dense', ['self', 'x', 'band_values'])
    walk_body(
        f.body,
        [
            ('matrix', 'matrix = dense_symmetric_band_toeplitz(x.shape[-1], band_values)'),
            ('return', 'return matrix @ x'),
        ],
        Scope({}),
        [],
        {},
    )
    return '(* _get_kernel, mv and _apply_dense have the statement skeleton the model mirrors *)\n'


HEADER = """(* GENERATED by /verif/tools/translate/toeplitz.py from {src} - do not edit. *)
From Coq Require Import ZArith List Bool String.
From Furax Require Import Model.Toeplitz.
Import ListNotations.
Open Scope Z_scope.

"""


def translate(repo: Path) -> str:
    src = repo / REL
    try:
        tree = ast.parse(src.read_text())
    except (OSError, SyntaxError) as e:
        raise Tie(f'translator toeplitz.py: cannot parse {src}: {e}')
    cls = find_class(tree)
    parts = [HEADER.format(src=src)]
    for fn in (tr_methods, tr_default_fft, tr_ctor, tr_direct, tr_fft, tr_overlap_save, tr_kernel_and_mv):
        parts.append(fn(cls))
        parts.append('\n')
    return ''.join(parts)


def main(repo: str, out_dir: str) -> None:
    text = translate(Path(repo))
    Path(out_dir).mkdir(parents=True, exist_ok=True)
    (Path(out_dir) / 'ToeplitzArith.v').write_text(text)


if __name__ == '__main__':
    main(sys.argv[1] if len(sys.argv) > 1 else '/repo', sys.argv[2] if len(sys.argv) > 2 else '.')
