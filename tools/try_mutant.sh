#!/bin/bash
# usage: try_mutant.sh <worktree> <patch.diff> <demo.py|-> <prop> [<prop> ...]
# Resets the scratch worktree to /repo's HEAD, applies the patch, runs the demonstration (expected to
# fail) and the listed checks against the worktree (FURAX_REPO); prints one line per check; reverts.
wt=$1; patch=$2; demo=$3; shift 3
git -C "$wt" checkout -q --detach "$(git -C /repo rev-parse HEAD)" || exit 2
git -C "$wt" checkout -q -- . 
git -C "$wt" apply "$patch" || { echo "PATCH-DOES-NOT-APPLY $patch"; exit 2; }
if [ "$demo" != "-" ]; then
  (cd "$wt" && PYTHONPATH="$wt/src" JAX_PLATFORMS=cpu timeout 600 /venv/bin/python "$demo" >/dev/null 2>&1); echo "demo exit (mutated) = $?"
fi
for p in "$@"; do
  mkdir -p /tmp/mutant-evidence /tmp/mutant-replays
  out=$(cd /verif && VERIF_WORK_DIR=/tmp/mutant-work-$(basename $wt) VERIF_EVIDENCE_DIR=/tmp/mutant-evidence VERIF_REPLAYS_DIR=/tmp/mutant-replays FURAX_REPO="$wt" timeout 3000 ./check "$p" --tier quick 2>&1); rc=$?
  echo "check $p exit=$rc :: $(echo "$out" | grep -E '^VIOLATION|^KNOWN' | head -3 | tr '\n' ' ')"
  echo "$out" | grep -E "^$p quick" | cut -c1-300
  for r in $(echo "$out" | grep -oE 'replay=[^ ]+' | head -2 | cut -d= -f2); do
    python3 - "$r" <<'PY'
import json,sys
d=json.load(open(sys.argv[1])); print('   replay:', json.dumps(d.get('case'))[:300], '|', str(d.get('oracle') or d.get('broken_tie'))[:400])
PY
  done
done
git -C "$wt" checkout -q -- .
if [ "$demo" != "-" ]; then
  (cd "$wt" && PYTHONPATH="$wt/src" JAX_PLATFORMS=cpu timeout 600 /venv/bin/python "$demo" >/dev/null 2>&1); echo "demo exit (clean) = $?"
fi
